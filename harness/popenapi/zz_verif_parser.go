package openapi

import (
	"context"

	"github.com/getkin/kin-openapi/openapi3"
	"github.com/grafana/cog/internal/ast"
	v "github.com/grafana/cog/internal/zzverif"
	"github.com/grafana/cog/internal/zzverif/symir"
)

// ---------------------------------------------------------------- the OpenAPI walker on symbolic library structs
//
// kin-openapi hands cog a tree of *openapi3.Schema / SchemaRef values; that tree (not the
// bytes it was decoded from) is made symbolic: definition names over a case-sensitive
// alphabet, kinds forked, references to existing definitions (the loader rejects unresolved
// ones), optional pieces present or absent.

func opTypes(t string) *openapi3.Types { return &openapi3.Types{t} }

var opLeafCount int

var opNames = []string{"Status", "status", "Report"}

func opRef(name string) *openapi3.SchemaRef {
	// the loader resolves references: Value points to the referred schema (its content is not
	// looked at by the walker for a reference, except for its description)
	return &openapi3.SchemaRef{Ref: "#/components/schemas/" + name, Value: &openapi3.Schema{}}
}

func opLeaf() *openapi3.SchemaRef {
	k := v.Choose(6)
	if v.Tier() == 0 && opLeafCount > 0 {
		k = []int{0, 3}[v.Choose(2)] // quick: later leaves are a string or a reference
	}
	opLeafCount++
	switch k {
	case 0:
		s := &openapi3.Schema{Type: opTypes("string")}
		if v.Choose(2) == 1 {
			s.Default = "d"
		}
		s.Format = v.Str("format", "", "date-time", "byte")
		s.Nullable = v.Bool("nullable")
		return &openapi3.SchemaRef{Value: s}
	case 1:
		s := &openapi3.Schema{Type: opTypes("integer")}
		s.Format = v.Str("intformat", "", "int32", "int64")
		if v.Choose(2) == 1 {
			m := 1.0
			s.Min = &m
			s.ExclusiveMin = v.Bool("exclusive")
		}
		return &openapi3.SchemaRef{Value: s}
	case 2:
		return &openapi3.SchemaRef{Value: &openapi3.Schema{Type: opTypes("boolean")}}
	case 3:
		return opRef(v.Str("refname", opNames...))
	case 4:
		e := &openapi3.Schema{Type: opTypes("string"), Enum: []any{"a", "b"}}
		switch v.Choose(3) {
		case 1:
			e.Type = nil // `enum` without `type` is a valid OpenAPI schema
		case 2: // an integer enum with a default that is not its first member (the library delivers numbers as float64)
			e = &openapi3.Schema{Type: opTypes("integer"), Enum: []any{float64(10), float64(20)}, Default: float64(20)}
		}
		return &openapi3.SchemaRef{Value: e}
	default:
		return &openapi3.SchemaRef{Value: &openapi3.Schema{}} // no type at all: `any`
	}
}

func opDefinition() *openapi3.SchemaRef {
	switch v.Choose(6) {
	case 0:
		return opLeaf()
	case 1: // object with 1-2 properties
		s := &openapi3.Schema{Type: opTypes("object"), Properties: openapi3.Schemas{}}
		n := 2
		if v.Tier() > 0 {
			n = 1 + v.Choose(2)
		}
		for i := 0; i < n; i++ {
			name := []string{"alpha", "Alpha"}[i]
			s.Properties[name] = opLeaf()
			if (v.Tier() == 0 && i == 0) || (v.Tier() > 0 && v.Choose(2) == 1) {
				s.Required = append(s.Required, name)
			}
		}
		return &openapi3.SchemaRef{Value: s}
	case 2:
		return &openapi3.SchemaRef{Value: &openapi3.Schema{Type: opTypes("array"), Items: opLeaf()}}
	case 3: // map
		return &openapi3.SchemaRef{Value: &openapi3.Schema{Type: opTypes("object"), AdditionalProperties: openapi3.AdditionalProperties{Schema: opLeaf()}}}
	case 4: // oneOf with an optional discriminator
		s := &openapi3.Schema{OneOf: openapi3.SchemaRefs{opLeaf(), opLeaf()}}
		if v.Bool("discriminator") {
			s.Discriminator = &openapi3.Discriminator{PropertyName: "kind"}
		}
		return &openapi3.SchemaRef{Value: s}
	default:
		return &openapi3.SchemaRef{Value: &openapi3.Schema{AllOf: openapi3.SchemaRefs{opLeaf(), opLeaf()}}}
	}
}

func opSchemas() (openapi3.Schemas, []string) {
	opLeafCount = 0
	defs := openapi3.Schemas{}
	var names []string
	n := 2 // (three definitions under symbolic map order do not complete: thorough widens the leaves instead)
	for i := 0; i < n; i++ {
		// definition names are concrete (two of them differ only in letter case); which
		// definition a reference names stays symbolic
		name := opNames[i]
		names = append(names, name)
		switch {
		case i == 0:
			defs[name] = opDefinition()
		case v.Tier() == 0 || i == 2:
			defs[name] = &openapi3.SchemaRef{Value: &openapi3.Schema{Type: opTypes("string")}}
		default:
			defs[name] = opLeaf()
		}
	}
	return defs, names
}

// opRefsResolve: the precondition the loader guarantees — every $ref names a definition.
func opRefsResolve(defs openapi3.Schemas, names []string) bool {
	ok := true
	var walk func(r *openapi3.SchemaRef)
	walk = func(r *openapi3.SchemaRef) {
		if r == nil {
			return
		}
		if r.Ref != "" {
			found := false
			for _, n := range names {
				found = v.Or(found, r.Ref == "#/components/schemas/"+n)
			}
			ok = v.And(ok, found)
			return
		}
		s := r.Value
		for _, p := range s.Properties {
			walk(p)
		}
		walk(s.Items)
		walk(s.AdditionalProperties.Schema)
		for _, b := range s.OneOf {
			walk(b)
		}
		for _, b := range s.AllOf {
			walk(b)
		}
	}
	for _, d := range defs {
		walk(d)
	}
	return ok
}

func opParse(defs openapi3.Schemas) (*ast.Schema, error) {
	// the real GenerateAST on the loaded document (validation by the library is skipped: Validate=false),
	// so that its final ordering of the objects is the code under test, not a copy of it
	return GenerateAST(context.Background(), &openapi3.T{Components: &openapi3.Components{Schemas: defs}}, Config{Package: "p"})
}

// VerifParserOpenAPI: C05 — after parsing, every reference resolves; C03 — the result does not
// depend on the iteration order of the library's maps (definitions, properties).
func VerifParserOpenAPI() {
	defs, names := opSchemas()
	v.Assume(opRefsResolve(defs, names))
	v.SymOrder(true)
	s1, err1 := opParse(defs)
	s2, err2 := opParse(defs)
	v.SymOrder(false)
	v.Assert((err1 == nil) == (err2 == nil), "C03: the OpenAPI parser fails for one map iteration order and succeeds for another")
	if err1 != nil || err2 != nil {
		return
	}
	v.Observe(s1)
	v.Assert(v.DeepEqualNilEmpty(s1, s2), "C03: the IR parsed from an OpenAPI document depends on map iteration order")
	v.Assert(symir.AllResolve(ast.Schemas{s1}), "C05: a reference of the IR parsed from an OpenAPI document does not resolve")
	v.Assert(s1.Objects.Len() == len(names), "C05: the parser lost or invented a definition")
	// C10: the default of an enum has the dynamic type of the member it designates
	s1.Objects.Iterate(func(_ string, o ast.Object) {
		c10EnumDefaults(o.Type)
	})
}

// ---------------------------------------------------------------- C08: constraints extracted from an OpenAPI schema

// VerifC08OpenAPIConstraints: minimum/maximum/exclusiveMinimum/exclusiveMaximum/minLength/maxLength
// of a property, all symbolic (present or absent, any combination of the two exclusive flags, any
// bound), must reach the IR as exactly the constraints the document states:
// minimum m -> (>= m), or (> m) with exclusiveMinimum; maximum M -> (<= M), or (< M) with
// exclusiveMaximum; minLength n>0 -> (minLength n); maxLength n -> (maxLength n).
func VerifC08OpenAPIConstraints() {
	numeric := v.Bool("numeric")
	s := &openapi3.Schema{}
	type want struct {
		op  ast.Op
		arg int64
	}
	var wants []want
	if numeric {
		s.Type = opTypes(v.Str("numtype", "integer", "number"))
		s.ExclusiveMin = v.Bool("exclusivemin")
		s.ExclusiveMax = v.Bool("exclusivemax")
		if v.Bool("hasmin") {
			n := v.Int("min", -3, 3)
			m := float64(n)
			s.Min = &m
			if s.ExclusiveMin {
				wants = append(wants, want{ast.GreaterThanOp, int64(n)})
			} else {
				wants = append(wants, want{ast.GreaterThanEqualOp, int64(n)})
			}
		}
		if v.Bool("hasmax") {
			n := v.Int("max", -3, 3)
			m := float64(n)
			s.Max = &m
			if s.ExclusiveMax {
				wants = append(wants, want{ast.LessThanOp, int64(n)})
			} else {
				wants = append(wants, want{ast.LessThanEqualOp, int64(n)})
			}
		}
	} else {
		s.Type = opTypes("string")
		n := v.Int("minlength", 0, 3)
		s.MinLength = uint64(n)
		if n > 0 {
			wants = append(wants, want{ast.MinLengthOp, int64(n)})
		}
		if v.Bool("hasmaxlength") {
			x := v.Int("maxlength", 0, 5)
			ux := uint64(x)
			s.MaxLength = &ux
			wants = append(wants, want{ast.MaxLengthOp, int64(x)})
		}
	}
	obj := &openapi3.Schema{Type: opTypes("object"), Properties: openapi3.Schemas{"field": &openapi3.SchemaRef{Value: s}}, Required: []string{"field"}}
	parsed, err := opParse(openapi3.Schemas{"Thing": &openapi3.SchemaRef{Value: obj}})
	v.Assert(err == nil, "C08: the OpenAPI parser rejects a property with numeric or length bounds")
	if err != nil {
		return
	}
	thing, found := parsed.LocateObject("Thing")
	v.Assert(found && thing.Type.IsStruct() && len(thing.Type.Struct.Fields) == 1 && thing.Type.Struct.Fields[0].Type.IsScalar(), "C08: the constrained property is not a scalar field of the parsed object")
	if !found || !thing.Type.IsStruct() || len(thing.Type.Struct.Fields) != 1 || !thing.Type.Struct.Fields[0].Type.IsScalar() {
		return
	}
	got := thing.Type.Struct.Fields[0].Type.Scalar.Constraints
	v.Assert(len(got) == len(wants), "C08: the constraints of the IR are not exactly the bounds the OpenAPI document states")
	for _, w := range wants {
		n := 0
		for _, c := range got {
			if c.Op != w.op || len(c.Args) != 1 {
				continue
			}
			switch a := c.Args[0].(type) {
			case int64:
				if a == w.arg {
					n++
				}
			case uint64:
				if a == uint64(w.arg) {
					n++
				}
			case float64:
				if a == float64(w.arg) {
					n++
				}
			}
		}
		v.Assert(n == 1, "C08: a bound of the OpenAPI document is missing from the IR, or has another operator or value")
	}
}

func c10EnumDefaults(t ast.Type) {
	switch t.Kind {
	case ast.KindEnum:
		if t.Default != nil {
			found := false
			for _, m := range t.Enum.Values {
				found = found || v.DeepEqual(m.Value, t.Default)
			}
			v.Assert(found, "C10: the default of an enum parsed from OpenAPI is not one of its members (re-typed or altered)")
		}
	case ast.KindArray:
		c10EnumDefaults(t.Array.ValueType)
	case ast.KindMap:
		c10EnumDefaults(t.Map.ValueType)
	case ast.KindStruct:
		for _, f := range t.Struct.Fields {
			c10EnumDefaults(f.Type)
		}
	case ast.KindDisjunction:
		for _, b := range t.Disjunction.Branches {
			c10EnumDefaults(b)
		}
	}
}
