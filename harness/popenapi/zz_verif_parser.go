package openapi

import (
	"github.com/getkin/kin-openapi/openapi3"
	"github.com/grafana/cog/internal/ast"
	"github.com/grafana/cog/internal/orderedmap"
	v "github.com/grafana/cog/internal/zzverif"
	"github.com/grafana/cog/internal/zzverif/symir"
)

// ---------------------------------------------------------------- the OpenAPI walker on symbolic library structs
//
// kin-openapi hands cog a tree of *openapi3.Schema / SchemaRef values; that tree (not the
// bytes it was decoded from) is made symbolic: definition names over a case-sensitive
// alphabet, kinds forked, references to existing definitions (the loader rejects unresolved
// ones), optional pieces present or absent.

func opTypes(t string) *openapi3.Types { return &openapi3.Types{t} }

var opLeafCount int

var opNames = []string{"Status", "status", "Report"}

func opRef(name string) *openapi3.SchemaRef {
	// the loader resolves references: Value points to the referred schema (its content is not
	// looked at by the walker for a reference, except for its description)
	return &openapi3.SchemaRef{Ref: "#/components/schemas/" + name, Value: &openapi3.Schema{}}
}

func opLeaf() *openapi3.SchemaRef {
	k := v.Choose(6)
	if v.Tier() == 0 && opLeafCount > 0 {
		k = []int{0, 3}[v.Choose(2)] // quick: later leaves are a string or a reference
	}
	opLeafCount++
	switch k {
	case 0:
		s := &openapi3.Schema{Type: opTypes("string")}
		if v.Choose(2) == 1 {
			s.Default = "d"
		}
		s.Format = v.Str("format", "", "date-time", "byte")
		s.Nullable = v.Bool("nullable")
		return &openapi3.SchemaRef{Value: s}
	case 1:
		s := &openapi3.Schema{Type: opTypes("integer")}
		s.Format = v.Str("intformat", "", "int32", "int64")
		if v.Choose(2) == 1 {
			m := 1.0
			s.Min = &m
			s.ExclusiveMin = v.Bool("exclusive")
		}
		return &openapi3.SchemaRef{Value: s}
	case 2:
		return &openapi3.SchemaRef{Value: &openapi3.Schema{Type: opTypes("boolean")}}
	case 3:
		return opRef(v.Str("refname", opNames...))
	case 4:
		e := &openapi3.Schema{Type: opTypes("string"), Enum: []any{"a", "b"}}
		if v.Choose(2) == 1 {
			e.Type = nil // `enum` without `type` is a valid OpenAPI schema
		}
		return &openapi3.SchemaRef{Value: e}
	default:
		return &openapi3.SchemaRef{Value: &openapi3.Schema{}} // no type at all: `any`
	}
}

func opDefinition() *openapi3.SchemaRef {
	switch v.Choose(6) {
	case 0:
		return opLeaf()
	case 1: // object with 1-2 properties
		s := &openapi3.Schema{Type: opTypes("object"), Properties: openapi3.Schemas{}}
		n := 2
		if v.Tier() > 0 {
			n = 1 + v.Choose(2)
		}
		for i := 0; i < n; i++ {
			name := []string{"alpha", "Alpha"}[i]
			s.Properties[name] = opLeaf()
			if (v.Tier() == 0 && i == 0) || (v.Tier() > 0 && v.Choose(2) == 1) {
				s.Required = append(s.Required, name)
			}
		}
		return &openapi3.SchemaRef{Value: s}
	case 2:
		return &openapi3.SchemaRef{Value: &openapi3.Schema{Type: opTypes("array"), Items: opLeaf()}}
	case 3: // map
		return &openapi3.SchemaRef{Value: &openapi3.Schema{Type: opTypes("object"), AdditionalProperties: openapi3.AdditionalProperties{Schema: opLeaf()}}}
	case 4: // oneOf with an optional discriminator
		s := &openapi3.Schema{OneOf: openapi3.SchemaRefs{opLeaf(), opLeaf()}}
		if v.Bool("discriminator") {
			s.Discriminator = &openapi3.Discriminator{PropertyName: "kind"}
		}
		return &openapi3.SchemaRef{Value: s}
	default:
		return &openapi3.SchemaRef{Value: &openapi3.Schema{AllOf: openapi3.SchemaRefs{opLeaf(), opLeaf()}}}
	}
}

func opSchemas() (openapi3.Schemas, []string) {
	opLeafCount = 0
	defs := openapi3.Schemas{}
	var names []string
	n := 2
	if v.Tier() > 0 {
		n = 3
	}
	for i := 0; i < n; i++ {
		// definition names are concrete (two of them differ only in letter case); which
		// definition a reference names stays symbolic
		name := opNames[i]
		names = append(names, name)
		switch {
		case i == 0:
			defs[name] = opDefinition()
		case v.Tier() == 0:
			defs[name] = &openapi3.SchemaRef{Value: &openapi3.Schema{Type: opTypes("string")}}
		default:
			defs[name] = opLeaf()
		}
	}
	return defs, names
}

// opRefsResolve: the precondition the loader guarantees — every $ref names a definition.
func opRefsResolve(defs openapi3.Schemas, names []string) bool {
	ok := true
	var walk func(r *openapi3.SchemaRef)
	walk = func(r *openapi3.SchemaRef) {
		if r == nil {
			return
		}
		if r.Ref != "" {
			found := false
			for _, n := range names {
				found = v.Or(found, r.Ref == "#/components/schemas/"+n)
			}
			ok = v.And(ok, found)
			return
		}
		s := r.Value
		for _, p := range s.Properties {
			walk(p)
		}
		walk(s.Items)
		walk(s.AdditionalProperties.Schema)
		for _, b := range s.OneOf {
			walk(b)
		}
		for _, b := range s.AllOf {
			walk(b)
		}
	}
	for _, d := range defs {
		walk(d)
	}
	return ok
}

func opParse(defs openapi3.Schemas) (*ast.Schema, error) {
	// what GenerateAST does after loading/validating the document
	g := &generator{schema: ast.NewSchema("p", ast.SchemaMeta{})}
	if err := g.declareDefinition(defs); err != nil {
		return nil, err
	}
	g.schema.Objects.Sort(orderedmap.SortStrings)
	return g.schema, nil
}

// VerifParserOpenAPI: C05 — after parsing, every reference resolves; C03 — the result does not
// depend on the iteration order of the library's maps (definitions, properties).
func VerifParserOpenAPI() {
	defs, names := opSchemas()
	v.Assume(opRefsResolve(defs, names))
	v.SymOrder(true)
	s1, err1 := opParse(defs)
	s2, err2 := opParse(defs)
	v.SymOrder(false)
	v.Assert((err1 == nil) == (err2 == nil), "C03: the OpenAPI parser fails for one map iteration order and succeeds for another")
	if err1 != nil || err2 != nil {
		return
	}
	v.Observe(s1)
	v.Assert(v.DeepEqualNilEmpty(s1, s2), "C03: the IR parsed from an OpenAPI document depends on map iteration order")
	v.Assert(symir.AllResolve(ast.Schemas{s1}), "C05: a reference of the IR parsed from an OpenAPI document does not resolve")
	v.Assert(s1.Objects.Len() == len(names), "C05: the parser lost or invented a definition")
}
