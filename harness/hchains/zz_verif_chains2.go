package hchains

import (
	"github.com/grafana/cog/internal/ast"
	"github.com/grafana/cog/internal/ast/compiler"
	v "github.com/grafana/cog/internal/zzverif"
	"github.com/grafana/cog/internal/zzverif/symir"
)

// ---------------------------------------------------------------- C06: more shape families

func c06Structs(p *ast.Schema) {
	p.AddObject(ast.NewObject("p", "Bar", ast.NewStruct(
		ast.NewStructField("type", ast.NewScalar(ast.KindString, ast.Value("bar")), ast.Required()),
		ast.NewStructField("x", ast.String()))))
	p.AddObject(ast.NewObject("p", "Baz", ast.NewStruct(
		ast.NewStructField("type", ast.NewScalar(ast.KindString, ast.Value("baz")), ast.Required()))))
}

// c06IntersectionRun: `allOf` composition used as a field type: payload: Bar & {note?: string, level?: enum},
// the field itself required or not.
func c06IntersectionRun(lang string) {
	g := c06Gen(false)
	note := ast.NewStructField("note", ast.String())
	note.Required = v.Bool("noterequired")
	inline := ast.NewStruct(note, ast.NewStructField("count", ast.NewScalar(ast.KindInt64), ast.Required()))
	if v.Choose(2) == 1 {
		level := ast.NewStructField("level", g.Enum())
		level.Required = v.Bool("levelrequired")
		inline.Struct.Fields = append(inline.Struct.Fields, level)
	}
	payload := ast.NewStructField("payload", ast.NewIntersection([]ast.Type{ast.NewRef("p", "Bar"), inline}))
	payload.Required = v.Bool("payloadrequired")
	p := ast.NewSchema("p", ast.SchemaMeta{})
	switch v.Choose(2) {
	case 0: // as a field type
		p.AddObject(ast.NewObject("p", "Foo", ast.NewStruct(payload)))
	default: // as the object's own type
		p.AddObject(ast.NewObject("p", "Foo", payload.Type))
	}
	c06Structs(p)
	v.Observe(p)
	out, err := chainOf(lang).Process(ast.Schemas{p})
	if err != nil {
		v.Reach("chain returned an error")
		return
	}
	v.Observe(out)
	nfSchemas(out, nfByLang[lang])
}

func VerifC06GoIntersection()     { c06IntersectionRun("go") }
func VerifC06JavaIntersection()   { c06IntersectionRun("java") }
func VerifC06PHPIntersection()    { c06IntersectionRun("php") }
func VerifC06PythonIntersection() { c06IntersectionRun("python") }

// c06ConstantsRun: unions of constants ("auto" | "manual") in field, array-element and map-value position.
func c06ConstantsRun(lang string) {
	union := ast.NewDisjunction(ast.Types{
		ast.NewScalar(ast.KindString, ast.Value(v.Str("c1", "auto", "1"))),
		ast.NewScalar(ast.KindString, ast.Value(v.Str("c2", "manual", "2"))),
	})
	union.Nullable = v.Bool("nullable")
	if v.Bool("hasdefault") {
		union.Default = "auto"
	}
	var t ast.Type
	switch v.Choose(4) {
	case 0:
		t = union
	case 1:
		t = ast.NewArray(union)
	case 2:
		t = ast.NewMap(ast.String(), union)
	default:
		t = ast.NewDisjunction(ast.Types{union, ast.NewScalar(ast.KindBool)})
	}
	f := ast.NewStructField("mode", t)
	f.Required = v.Bool("required")
	p := ast.NewSchema("p", ast.SchemaMeta{})
	p.AddObject(ast.NewObject("p", "Foo", ast.NewStruct(f)))
	c06Structs(p)
	foo, _ := p.LocateObject("Foo")
	v.Excuse("union-nested-in-union", symir.HasNestedUnion(foo.Type, false))
	v.Observe(p)
	out, err := chainOf(lang).Process(ast.Schemas{p})
	if err != nil {
		v.Reach("chain returned an error")
		return
	}
	v.Observe(out)
	nfSchemas(out, nfByLang[lang])
}

func VerifC06GoConstants()         { c06ConstantsRun("go") }
func VerifC06JavaConstants()       { c06ConstantsRun("java") }
func VerifC06PHPConstants()        { c06ConstantsRun("php") }
func VerifC06PythonConstants()     { c06ConstantsRun("python") }
func VerifC06TypeScriptConstants() { c06ConstantsRun("typescript") }

// ---------------------------------------------------------------- C07: packages do not influence each other

func c07PkgP(g *symir.Gen) *ast.Schema {
	p := ast.NewSchema("p", ast.SchemaMeta{})
	// a shape for which the chain creates new objects (anonymous struct / enum / union)
	var t ast.Type
	switch v.Choose(4) {
	case 0:
		t = ast.NewDisjunction(ast.Types{ast.String(), ast.NewScalar(ast.KindBool)})
	case 1:
		t = ast.NewStruct(ast.NewStructField("inner", ast.String()))
	case 2:
		t = g.Enum()
	default:
		t = ast.NewDisjunction(ast.Types{ast.NewRef("p", "Bar"), ast.NewRef("p", "Baz")})
	}
	p.AddObject(ast.NewObject("p", "Foo", ast.NewStruct(ast.NewStructField("a", t))))
	c06Structs(p)
	if v.Bool("pcollides") {
		// an object of p that carries the name the chains generate for an inline struct of q
		p.AddObject(ast.NewObject("p", "QOtherZ", ast.NewStruct(ast.NewStructField("unrelated", ast.String()))))
	}
	return p
}

func c07PkgQ() *ast.Schema {
	q := ast.NewSchema("q", ast.SchemaMeta{})
	fields := []ast.StructField{ast.NewStructField("x", ast.String()), ast.NewStructField("y", ast.NewScalar(ast.KindInt64), ast.Required())}
	if v.Bool("qinline") {
		// an inline struct: the chains name it after package, object and field (QOtherZ)
		fields = append(fields, ast.NewStructField("z", ast.NewStruct(ast.NewStructField("n", ast.String()))))
	}
	q.AddObject(ast.NewObject("q", "Other", ast.NewStruct(fields...)))
	return q
}

// c07TwoPackages: what a chain produces for one package is the same whether the package is
// processed alone, before, or after an unrelated package.
func c07TwoPackages(lang string) {
	g := c06Gen(false)
	p, q := c07PkgP(g), c07PkgQ()
	chain := chainOf(lang)
	alone := func(s *ast.Schema) (*ast.Schema, bool) {
		out, err := chain.Process(ast.Schemas{v.Clone(s)})
		if err != nil || len(out) != 1 {
			return nil, false
		}
		return out[0], true
	}
	pAlone, ok1 := alone(p)
	qAlone, ok2 := alone(q)
	if !ok1 || !ok2 {
		v.Reach("chain returned an error")
		return
	}
	var in ast.Schemas
	if v.Choose(2) == 0 {
		in = ast.Schemas{v.Clone(p), v.Clone(q)}
	} else {
		in = ast.Schemas{v.Clone(q), v.Clone(p)}
	}
	out, err := chain.Process(in)
	v.Assert(err == nil, "C07: the chain fails on two packages although it succeeds on each alone")
	if err != nil {
		return
	}
	for _, s := range out {
		switch s.Package {
		case "p":
			v.Assert(v.DeepEqualNilEmpty(s, pAlone), "C07: what the chain produces for a package depends on the other packages processed with it")
		case "q":
			v.Assert(v.DeepEqualNilEmpty(s, qAlone), "C07: what the chain produces for a package depends on the other packages processed with it")
		}
	}
	v.Assert(len(out) == 2, "C07: the chain lost or invented a package")
}

func VerifC07TwoPackagesGo()     { c07TwoPackages("go") }
func VerifC07TwoPackagesJava()   { c07TwoPackages("java") }
func VerifC07TwoPackagesPHP()    { c07TwoPackages("php") }
func VerifC07TwoPackagesPython() { c07TwoPackages("python") }

// VerifC07Pipeline: the pipeline runs common passes first and then, on the SAME schemas, one
// chain per language (plus user-supplied final passes). The schemas handed to the per-language
// part — which by then hold structs generated from unions, with the original union kept under
// a hint — must not be written.
func VerifC07Pipeline() {
	p := ast.NewSchema("p", ast.SchemaMeta{})
	u := ast.NewDisjunction(ast.Types{ast.NewRef("p", "Bar"), ast.NewRef("p", "Baz")})
	if v.Bool("explicitmapping") {
		u.Disjunction.Discriminator = "type"
		u.Disjunction.DiscriminatorMapping = map[string]string{"bar": "Bar", "baz": "Baz"}
	}
	if v.Choose(2) == 0 {
		p.AddObject(ast.NewObject("p", "Foo", u))
	} else {
		p.AddObject(ast.NewObject("p", "Foo", ast.NewStruct(ast.NewStructField("pet", u))))
	}
	c06Structs(p)
	common := compiler.Passes{&compiler.DisjunctionInferMapping{}, &compiler.DisjunctionToType{}}
	shared, err := common.Process(ast.Schemas{p})
	if err != nil {
		v.Reach("common passes returned an error")
		return
	}
	v.Observe(shared)
	v.Freeze(shared)
	var final compiler.Passes
	switch v.Choose(3) {
	case 0:
		final = compiler.Passes{&compiler.PrefixObjectNames{Prefix: "Zoo"}}
	case 1:
		final = chainOf(v.Str("lang", "go", "java", "php", "python", "typescript")).Concat(compiler.Passes{&compiler.PrefixObjectNames{Prefix: "Zoo"}})
	default:
		final = compiler.Passes{&compiler.RenameObject{From: compiler.ObjectReference{Package: "p", Object: "Bar"}, To: "Renamed"}}
	}
	_, _ = final.Process(shared)
	v.CheckFrozen()
	v.Reach("per-language part ran on frozen shared schemas")
}

// ---------------------------------------------------------------- unions of anonymous structs (a depth-2 shape the chains treat specially)

// c06StructUnion: `struct{..} | struct{..}` — two anonymous structs of 1-2 fields over the generator's
// leaves — optionally with a third `null` or `string` branch; as an object's own type, as a field type or
// as array elements.
func c06StructUnion(g *symir.Gen) ast.Type {
	// lean leaves: what matters is that there are two anonymous structs, with or without a constant
	// discriminator candidate, required or not
	saveW, saveN, saveS, saveL, saveR := g.Width, g.Nullable, g.Scalars, g.Leaves, g.RefNames
	g.Nullable, g.Scalars = false, []string{"string"}
	g.Leaves &= symir.KScalar | symir.KRef | symir.KConstScalar | symir.KConstRef
	if len(g.RefNames) > 3 {
		g.RefNames = []string{g.RefNames[0], g.RefNames[2], g.RefNames[4%len(g.RefNames)]}
	}
	g.Width = 2
	first := g.Struct(0)
	g.Width = 1
	second := g.Struct(0)
	br := ast.Types{first, second}
	g.Width, g.Nullable, g.Scalars, g.Leaves, g.RefNames = saveW, saveN, saveS, saveL, saveR
	switch v.Choose(3) {
	case 1:
		br = append(br, ast.Null())
	case 2:
		br = append(br, ast.String())
	}
	u := ast.NewDisjunction(br)
	switch v.Choose(3) {
	case 0:
		return u
	case 1:
		f := ast.NewStructField("u", u)
		f.Required = v.Bool("required")
		return ast.NewStruct(f)
	default:
		return ast.NewArray(u)
	}
}

func c06StructUnionRun(lang string) {
	g := c06Gen(false)
	g.Names = []string{"Bar", "Baz"}
	g.Leaves = symir.KScalar | symir.KRef | symir.KConstScalar
	in := c06InputWith(c06StructUnion(g))
	v.Observe(in)
	foo, _ := in.LocateObject("p", "Foo")
	v.Excuse("union-nested-in-union", symir.HasNestedUnion(foo.Type, false))
	out, err := chainOf(lang).Process(in)
	if err != nil {
		v.Reach("chain returned an error")
		return
	}
	v.Observe(out)
	nfSchemas(out, nfByLang[lang])
}

func VerifC06GoStructUnion()     { c06StructUnionRun("go") }
func VerifC06JavaStructUnion()   { c06StructUnionRun("java") }
func VerifC06PHPStructUnion()    { c06StructUnionRun("php") }
func VerifC06PythonStructUnion() { c06StructUnionRun("python") }

func VerifC05ChainGoStructUnion()         { c05ChainFamily("go", 1) }
func VerifC05ChainJavaStructUnion()       { c05ChainFamily("java", 1) }
func VerifC05ChainPHPStructUnion()        { c05ChainFamily("php", 1) }
func VerifC05ChainPythonStructUnion()     { c05ChainFamily("python", 1) }
func VerifC05ChainTypeScriptStructUnion() { c05ChainFamily("typescript", 1) }

// ---------------------------------------------------------------- the same union used several times; a union as an `allOf` branch

// c06UnionTwiceRun: the chains name the object they create for a union after its branches (StringOrBool):
// the second and later uses of the same union take another path through DisjunctionToType than the first.
func c06UnionTwiceRun(lang string) {
	mk := func() ast.Type {
		if v.Bool("refs") {
			return ast.NewDisjunction(ast.Types{ast.NewRef("p", "Bar"), ast.NewRef("p", "Baz")})
		}
		return ast.NewDisjunction(ast.Types{ast.String(), ast.NewScalar(ast.KindBool)})
	}
	first := ast.NewStructField("first", mk())
	first.Required = v.Bool("firstrequired")
	second := ast.NewStructField("second", mk())
	second.Required = v.Bool("secondrequired")
	second.Type.Nullable = v.Bool("secondnullable")
	third := ast.NewStructField("third", mk())
	third.Required = v.Bool("thirdrequired")
	p := ast.NewSchema("p", ast.SchemaMeta{})
	p.AddObject(ast.NewObject("p", "Foo", ast.NewStruct(first, second)))
	p.AddObject(ast.NewObject("p", "Other", ast.NewStruct(third)))
	c06Structs(p)
	v.Observe(p)
	out, err := chainOf(lang).Process(ast.Schemas{p})
	if err != nil {
		v.Reach("chain returned an error")
		return
	}
	v.Observe(out)
	nfSchemas(out, nfByLang[lang])
}

func VerifC06GoUnionTwice()     { c06UnionTwiceRun("go") }
func VerifC06JavaUnionTwice()   { c06UnionTwiceRun("java") }
func VerifC06PHPUnionTwice()    { c06UnionTwiceRun("php") }
func VerifC06PythonUnionTwice() { c06UnionTwiceRun("python") }

// c06IntersectionUnionRun: a union sitting directly as a branch of an `allOf` composition
// (`Bar & (A | B)`, JSON Schema `allOf: [{$ref}, {oneOf: ...}]`), or inside an inline struct branch.
func c06IntersectionUnionRun(lang string) {
	var u ast.Type
	if v.Bool("refs") {
		u = ast.NewDisjunction(ast.Types{ast.NewRef("p", "Bar"), ast.NewRef("p", "Baz")})
	} else {
		u = ast.NewDisjunction(ast.Types{ast.String(), ast.NewScalar(ast.KindBool)})
	}
	var second ast.Type
	if v.Choose(2) == 0 {
		second = u
	} else {
		second = ast.NewStruct(ast.NewStructField("value", u, ast.Required()))
	}
	inter := ast.NewIntersection([]ast.Type{ast.NewRef("p", "Bar"), second})
	p := ast.NewSchema("p", ast.SchemaMeta{})
	if v.Choose(2) == 0 {
		p.AddObject(ast.NewObject("p", "Foo", inter))
	} else {
		p.AddObject(ast.NewObject("p", "Foo", ast.NewStruct(ast.NewStructField("payload", inter, ast.Required()))))
	}
	c06Structs(p)
	v.Observe(p)
	out, err := chainOf(lang).Process(ast.Schemas{p})
	if err != nil {
		v.Reach("chain returned an error")
		return
	}
	v.Observe(out)
	nfSchemas(out, nfByLang[lang])
}

func VerifC06GoIntersectionUnion()   { c06IntersectionUnionRun("go") }
func VerifC06JavaIntersectionUnion() { c06IntersectionUnionRun("java") }

// c06IntConstantsRun: a union of references to structs whose only shared constant field is NOT a string
// (`schemaVersion: 1` / `schemaVersion: 2`): no discriminator can be inferred from it.
func c06IntConstantsRun(lang string) {
	p := ast.NewSchema("p", ast.SchemaMeta{})
	mk := func(n int64) ast.Type {
		fields := []ast.StructField{ast.NewStructField("schemaVersion", ast.NewScalar(ast.KindInt64, ast.Value(n)), ast.Required())}
		if v.Bool("alsostring") {
			fields = append(fields, ast.NewStructField("kind", ast.NewScalar(ast.KindString, ast.Value(v.Str("kindvalue", "a", "b"))), ast.Required()))
		}
		return ast.NewStruct(fields...)
	}
	p.AddObject(ast.NewObject("p", "V1", mk(1)))
	p.AddObject(ast.NewObject("p", "V2", mk(2)))
	u := ast.NewDisjunction(ast.Types{ast.NewRef("p", "V1"), ast.NewRef("p", "V2")})
	if v.Choose(2) == 0 {
		p.AddObject(ast.NewObject("p", "Foo", u))
	} else {
		f := ast.NewStructField("event", u)
		f.Required = v.Bool("required")
		p.AddObject(ast.NewObject("p", "Foo", ast.NewStruct(f)))
	}
	v.Observe(p)
	out, err := chainOf(lang).Process(ast.Schemas{p})
	if err != nil {
		v.Reach("chain returned an error")
		return
	}
	v.Observe(out)
	nfSchemas(out, nfByLang[lang])
}

func VerifC06GoIntConstants()     { c06IntConstantsRun("go") }
func VerifC06JavaIntConstants()   { c06IntConstantsRun("java") }
func VerifC06PHPIntConstants()    { c06IntConstantsRun("php") }
func VerifC06PythonIntConstants() { c06IntConstantsRun("python") }

// VerifC10ChainUnionDefault (C10): a union of constants and their type with a default (`"x" | "y" | string`,
// default "y" — CUE's `*"y"`), as a field or an object, through the Go and Python chains: whatever the
// chain turns the union into, the default it declares must still be there with the same value.
func VerifC10ChainUnionDefault() {
	lang := v.Str("lang", "go", "python")
	u := ast.NewDisjunction(ast.Types{
		ast.NewScalar(ast.KindString, ast.Value("x")),
		ast.NewScalar(ast.KindString, ast.Value("y")),
		ast.String(),
	})
	dflt := v.Str("default", "y", "x", "other")
	u.Default = dflt
	p := ast.NewSchema("p", ast.SchemaMeta{})
	f := ast.NewStructField("kind", u)
	f.Required = v.Bool("required")
	p.AddObject(ast.NewObject("p", "Foo", ast.NewStruct(f)))
	out, err := chainOf(lang).Process(ast.Schemas{p})
	if err != nil {
		v.Reach("chain returned an error")
		return
	}
	foo, ok := out.LocateObject("p", "Foo")
	v.Assert(ok && foo.Type.IsStruct() && len(foo.Type.Struct.Fields) == 1, "C10 (setup): the chain lost the object or its field")
	if !ok || !foo.Type.IsStruct() || len(foo.Type.Struct.Fields) != 1 {
		return
	}
	v.Assert(v.DeepEqual(foo.Type.Struct.Fields[0].Type.Default, any(dflt)), "C10: the default a union of constants declares is altered or dropped by the language's chain")
}

// VerifC06GoEnumObjectNames: enum OBJECTS whose own name is not UpperCamelCase (sort_order, refresh-mode, foo):
// Go members must still be prefixed with the Go type name.
func VerifC06GoEnumObjectNames() {
	g := c06Gen(false)
	name := v.Str("enumobject", "sort_order", "refresh-mode", "foo", "Mode")
	p := ast.NewSchema("p", ast.SchemaMeta{})
	p.AddObject(ast.NewObject("p", name, g.Enum()))
	f := ast.NewStructField("order", ast.NewRef("p", name))
	f.Required = v.Bool("required")
	p.AddObject(ast.NewObject("p", "Holder", ast.NewStruct(f)))
	out, err := chainOf("go").Process(ast.Schemas{p})
	if err != nil {
		v.Reach("chain returned an error")
		return
	}
	v.Observe(out)
	nfSchemas(out, nfByLang["go"])
}

// c06NullOrderRun: `T | null` and `null | T` both mean "optional T": after the chain the position holds T
// (its kind) marked nullable, whichever order the two branches were written in.
func c06NullOrderRun(lang string) {
	var t ast.Type
	switch v.Choose(3) {
	case 0:
		t = ast.String()
	case 1:
		t = ast.NewRef("p", "Bar")
	default:
		t = ast.NewArray(ast.String())
	}
	var u ast.Type
	if v.Bool("nullfirst") {
		u = ast.NewDisjunction(ast.Types{ast.Null(), t})
	} else {
		u = ast.NewDisjunction(ast.Types{t, ast.Null()})
	}
	f := ast.NewStructField("maybe", u)
	f.Required = v.Bool("required")
	p := ast.NewSchema("p", ast.SchemaMeta{})
	p.AddObject(ast.NewObject("p", "Foo", ast.NewStruct(f)))
	c06Structs(p)
	out, err := chainOf(lang).Process(ast.Schemas{p})
	if err != nil {
		v.Reach("chain returned an error")
		return
	}
	v.Observe(out)
	nfSchemas(out, nfByLang[lang])
	foo, ok := out.LocateObject("p", "Foo")
	kept := ok && foo.Type.IsStruct() && len(foo.Type.Struct.Fields) == 1
	v.Assert(kept, "C06: the chain lost the object or its field")
	if !kept {
		return
	}
	got := foo.Type.Struct.Fields[0].Type
	v.Assert(got.Kind == t.Kind && got.Nullable, "C06: a two-branch union with null did not become the nullable other branch")
}

func VerifC06GoNullOrder()     { c06NullOrderRun("go") }
func VerifC06JavaNullOrder()   { c06NullOrderRun("java") }
func VerifC06PHPNullOrder()    { c06NullOrderRun("php") }
func VerifC06PythonNullOrder() { c06NullOrderRun("python") }
