// Package hchains hosts the harnesses that run each target language's REAL
// compiler pass chain (the slice literal returned by (*Language).CompilerPasses).
package hchains

import (
	"strconv"
	"strings"

	"github.com/grafana/cog/internal/ast"
	"github.com/grafana/cog/internal/ast/compiler"
	"github.com/grafana/cog/internal/jennies/golang"
	"github.com/grafana/cog/internal/jennies/java"
	"github.com/grafana/cog/internal/jennies/php"
	"github.com/grafana/cog/internal/jennies/python"
	"github.com/grafana/cog/internal/jennies/typescript"
	"github.com/grafana/cog/internal/tools"
	v "github.com/grafana/cog/internal/zzverif"
	"github.com/grafana/cog/internal/zzverif/symir"
)

func chainOf(lang string) compiler.Passes {
	switch lang {
	case "go":
		return (&golang.Language{}).CompilerPasses()
	case "java":
		return (&java.Language{}).CompilerPasses()
	case "php":
		return (&php.Language{}).CompilerPasses()
	case "python":
		return (&python.Language{}).CompilerPasses()
	case "typescript":
		return (&typescript.Language{}).CompilerPasses()
	}
	v.Fatal("unknown language " + lang)
	return nil
}

// ---------------------------------------------------------------- C06 normal forms

type nfRules struct {
	noDisjunction       bool
	enumsOnlyObjects    bool
	structsOnlyObjects  bool
	notRequiredNullable bool
	noNullUnion         bool
	enumNames           string // "go" | "nonnumeric" | "php" | ""
}

var nfByLang = map[string]nfRules{
	"go":         {true, true, true, true, true, "go"},
	"java":       {true, true, true, true, true, ""},
	"php":        {false, true, true, true, true, "php"},
	"python":     {false, false, true, true, true, "nonnumeric"},
	"typescript": {false, false, false, false, false, "nonnumeric"},
}

// nfCheck walks a type at every depth: array element, map index and value, struct
// fields, union and intersection branches. top: the type is an object's own type.
func nfCheck(t ast.Type, top bool, inIntersection bool, r nfRules, objName string) {
	if r.noDisjunction {
		v.Assert(t.Kind != ast.KindDisjunction, "C06: a union type remains after the chain")
	}
	switch t.Kind {
	case ast.KindDisjunction:
		if t.Disjunction != nil {
			if r.noNullUnion && len(t.Disjunction.Branches) == 2 {
				v.Assert(!t.Disjunction.Branches.HasNullType(), "C06: a two-branch `T | null` union remains after the chain")
			}
			for _, b := range t.Disjunction.Branches {
				nfCheck(b, false, inIntersection, r, objName)
			}
		}
	case ast.KindEnum:
		if r.enumsOnlyObjects {
			v.Assert(top, "C06: an enum that is not a named object remains after the chain")
		}
		if t.Enum != nil {
			for _, m := range t.Enum.Values {
				switch r.enumNames {
				case "go":
					if top {
						v.Assert(strings.HasPrefix(m.Name, tools.UpperCamelCase(objName)), "C06: Go enum member name is not prefixed with the object's name")
					}
				case "nonnumeric":
					if top {
						_, err := strconv.Atoi(m.Name)
						v.Assert(err != nil, "C06: enum member name is purely numeric")
					}
				case "php":
					v.Assert(m.Name != "", "C06: PHP enum member name is empty")
					v.Assert(!strings.HasPrefix(m.Name, "-") && !strings.HasPrefix(m.Name, "+"), "C06: PHP enum member name starts with a sign")
				}
			}
		}
	case ast.KindStruct:
		if r.structsOnlyObjects && !inIntersection {
			v.Assert(top, "C06: an anonymous struct remains outside an intersection after the chain")
		}
		if t.Struct != nil {
			for _, f := range t.Struct.Fields {
				if r.notRequiredNullable {
					v.Excuse("optional-any-not-nullable", f.Type.IsAny())
					v.Assert(v.Or(f.Required, f.Type.Nullable), "C06: a non-required field is not nullable after the chain")
				}
				nfCheck(f.Type, false, inIntersection, r, objName)
			}
		}
	case ast.KindArray:
		if t.Array != nil {
			nfCheck(t.Array.ValueType, false, inIntersection, r, objName)
		}
	case ast.KindMap:
		if t.Map != nil {
			nfCheck(t.Map.IndexType, false, inIntersection, r, objName)
			nfCheck(t.Map.ValueType, false, inIntersection, r, objName)
		}
	case ast.KindIntersection:
		if t.Intersection != nil {
			for _, b := range t.Intersection.Branches {
				nfCheck(b, false, true, r, objName)
			}
		}
	}
}

func nfSchemas(out ast.Schemas, r nfRules) {
	for _, s := range out {
		s.Objects.Iterate(func(name string, o ast.Object) {
			nfCheck(o.Type, true, false, r, o.Name)
		})
		nfCheck(s.EntryPointType, false, false, r, "")
	}
}

func c06Gen(depth2 bool) *symir.Gen {
	g := symir.Default()
	g.Pkgs = []string{"p"}
	g.RefPkgs = []string{"p"}
	g.Names = []string{"Foo", "Bar"}
	g.Fields = []string{"a", "type"}
	g.Scalars = []string{"string", "int64"}
	g.Leaves = symir.KScalar | symir.KRef | symir.KEnum | symir.KNullScalar | symir.KConstScalar
	g.Kinds = symir.KScalar | symir.KRef | symir.KEnum | symir.KArray | symir.KMap | symir.KStruct | symir.KDisjunction
	g.Width = 2
	g.Nullable = true
	g.Required = true
	if v.Tier() > 0 {
		// thorough: the same depth, wider — unions of up to 3 branches, one more scalar kind and field name. (Full depth 2 squares the number of shapes and does not complete; depth is
		// covered by the spine, union-of-structs, intersection and constants families instead.)
		g.UnionWidth = 3
		g.UnionTailLeaves = symir.KScalar | symir.KNullScalar | symir.KRef
		g.Scalars = []string{"string", "int64", "bool"}
		g.Fields = []string{"a", "type", "b"}
	}
	return g
}

// c06Input: object Foo of depth d (shape forked), object Bar a struct with one scalar
// field and a constant discriminator candidate; references may name either.
func c06Input(g *symir.Gen, d int) ast.Schemas { return c06InputWith(g.Type(d)) }

func c06InputWith(fooType ast.Type) ast.Schemas {
	p := ast.NewSchema("p", ast.SchemaMeta{})
	p.AddObject(ast.NewObject("p", "Foo", fooType))
	p.AddObject(ast.NewObject("p", "Bar", ast.NewStruct(
		ast.NewStructField("type", ast.NewScalar(ast.KindString, ast.Value("bar")), ast.Required()),
		ast.NewStructField("x", ast.String()),
	)))
	p.AddObject(ast.NewObject("p", "Baz", ast.NewStruct(
		ast.NewStructField("type", ast.NewScalar(ast.KindString, ast.Value("baz")), ast.Required()),
	)))
	return ast.Schemas{p}
}

func c06Run(lang string, depth int) {
	g := c06Gen(depth > 1)
	g.Names = []string{"Bar", "Baz"} // references resolve to the two structs
	in := c06Input(g, depth)
	v.Observe(in)
	foo, _ := in.LocateObject("p", "Foo")
	v.Excuse("union-nested-in-union", symir.HasNestedUnion(foo.Type, false))
	v.Excuse("union-of-two-anonymous-enums", c06TwoEnumBranches(foo.Type))
	out, err := chainOf(lang).Process(in)
	if err != nil {
		v.Reach("chain returned an error")
		return
	}
	v.Observe(out)
	v.Reach("chain succeeded")
	nfSchemas(out, nfByLang[lang])
}

func c06Depth() int { return 1 }

func VerifC06Go()         { c06Run("go", c06Depth()) }
func VerifC06Java()       { c06Run("java", c06Depth()) }
func VerifC06PHP()        { c06Run("php", c06Depth()) }
func VerifC06Python()     { c06Run("python", c06Depth()) }
func VerifC06TypeScript() { c06Run("typescript", c06Depth()) }

// VerifC06GoSpine: deep-spine family (width 1): union / array / map / struct nested
// three levels on one spine, e.g. disjunction(array(disjunction(..))).
func c06Spine(g *symir.Gen, d int) ast.Type {
	if d == 0 {
		switch v.Choose(4) {
		case 0:
			return ast.String()
		case 1:
			return ast.NewRef("p", "Bar")
		case 2:
			return ast.Null()
		default:
			return g.Enum()
		}
	}
	inner := c06Spine(g, d-1)
	switch v.Choose(4) {
	case 0:
		return ast.NewArray(inner)
	case 1:
		return ast.NewMap(ast.String(), inner)
	case 2:
		f := ast.NewStructField("a", inner)
		f.Required = v.Bool("required")
		return ast.NewStruct(f)
	default:
		// the second branch differs at every level, so that no union lists (after flattening) the same type twice
		other := ast.Type(ast.NewScalar([]ast.ScalarKind{ast.KindInt64, ast.KindBool, ast.KindFloat64}[d%3]))
		if d == 1 && v.Choose(2) == 1 {
			other = ast.NewRef("p", "Baz")
		}
		return ast.NewDisjunction(ast.Types{inner, other})
	}
}

func c06SpineRun(lang string) {
	g := c06Gen(true)
	d := 2
	if v.Tier() > 0 {
		d = 3
	}
	p := ast.NewSchema("p", ast.SchemaMeta{})
	p.AddObject(ast.NewObject("p", "Foo", c06Spine(g, d)))
	p.AddObject(ast.NewObject("p", "Bar", ast.NewStruct(
		ast.NewStructField("type", ast.NewScalar(ast.KindString, ast.Value("bar")), ast.Required()))))
	p.AddObject(ast.NewObject("p", "Baz", ast.NewStruct(
		ast.NewStructField("type", ast.NewScalar(ast.KindString, ast.Value("baz")), ast.Required()))))
	v.Observe(p)
	foo, _ := p.LocateObject("Foo")
	v.Excuse("union-nested-in-union", symir.HasNestedUnion(foo.Type, false))
	out, err := chainOf(lang).Process(ast.Schemas{p})
	if err != nil {
		v.Reach("chain returned an error")
		return
	}
	v.Observe(out)
	v.Reach("chain succeeded")
	nfSchemas(out, nfByLang[lang])
}

func VerifC06GoSpine()     { c06SpineRun("go") }
func VerifC06JavaSpine()   { c06SpineRun("java") }
func VerifC06PHPSpine()    { c06SpineRun("php") }
func VerifC06PythonSpine() { c06SpineRun("python") }

// ---------------------------------------------------------------- C07: a chain never modifies what it was handed

func c07Frozen(lang string) {
	g := c06Gen(false)
	g.Names = []string{"Bar", "Baz"}
	g.Defaults = true
	g.Kinds |= symir.KIntersection
	in := c06Input(g, 1)
	if v.Bool("entrypoint") {
		in[0].EntryPoint = "Foo"
		in[0].EntryPointType = ast.NewRef("p", "Foo")
	}
	v.Observe(in)
	v.Freeze(in)
	_, _ = chainOf(lang).Process(in)
	v.CheckFrozen()
	v.Reach("chain ran on frozen input")
}

func VerifC07FrozenGo()         { c07Frozen("go") }
func VerifC07FrozenJava()       { c07Frozen("java") }
func VerifC07FrozenPHP()        { c07Frozen("php") }
func VerifC07FrozenPython()     { c07Frozen("python") }
func VerifC07FrozenTypeScript() { c07Frozen("typescript") }

// ---------------------------------------------------------------- C05 (chains): a language's chain never turns a resolving reference into a dangling one

func c05Chain(lang string) { c05ChainFamily(lang, 0) }

func c05ChainFamily(lang string, family int) {
	g := c06Gen(false)
	g.Names = []string{"Bar", "Baz"}
	g.Nullable, g.Required = false, false
	g.Leaves = symir.KScalar | symir.KRef | symir.KEnum | symir.KConstRef
	// aliases: Al -> string, Al2 -> Al (an alias of an alias), AlArr -> []string
	g.RefNames = []string{"Bar", "Baz", "Al", "Al2", "AlArr"}
	g.ConstRefNames = []string{"En"} // constant references denote members of an enum object
	var in ast.Schemas
	if family == 1 {
		in = c06InputWith(c06StructUnion(g))
	} else {
		in = c06Input(g, c06Depth())
	}
	in[0].AddObject(ast.NewObject("p", "En", ast.NewEnum([]ast.EnumValue{{Type: ast.String(), Name: "x", Value: "x"}, {Type: ast.String(), Name: "y", Value: "y"}})))
	in[0].AddObject(ast.NewObject("p", "Al", ast.String()))
	in[0].AddObject(ast.NewObject("p", "Al2", ast.NewRef("p", "Al")))
	in[0].AddObject(ast.NewObject("p", "AlArr", ast.NewArray(ast.String())))
	structAlias := family == 0 && v.Bool("structalias")
	if structAlias {
		// an alias of a struct, declared after the objects that refer to the struct
		in[0].AddObject(ast.NewObject("p", "AlBar", ast.NewRef("p", "Bar")))
	}
	if v.Bool("entrypoint") {
		in[0].EntryPoint = "Foo"
		in[0].EntryPointType = ast.NewRef("p", "Foo")
	}
	v.Assume(symir.AllResolve(in))
	v.Observe(in)
	foo, _ := in.LocateObject("p", "Foo")
	fooResolved := in.ResolveToType(foo.Type)
	v.Excuse("entrypoint-object-inlined", lang == "php" && in[0].EntryPoint == "Foo" &&
		(fooResolved.Kind == ast.KindScalar || fooResolved.Kind == ast.KindArray || fooResolved.Kind == ast.KindMap || fooResolved.Kind == ast.KindDisjunction))
	fooTarget := ast.Type{}
	if foo.Type.Kind == ast.KindRef {
		if t, ok := in.LocateObject(foo.Type.Ref.ReferredPkg, foo.Type.Ref.ReferredType); ok {
			fooTarget = t.Type
		}
	}
	v.Excuse("java-alias-of-array-removed", lang == "java" && in[0].EntryPoint == "Foo" && fooTarget.Kind == ast.KindArray)
	// Java: the struct an alias stands for is removed and only DIRECT struct-field references to it are rewritten
	barElsewhere := false
	for _, pos := range symir.Collect(foo.Type, "", nil) {
		barElsewhere = v.Or(barElsewhere, v.And(pos.Name == "Bar", !strings.HasSuffix(pos.Where, ".field:ref")))
	}
	v.Excuse("java-struct-alias-other-references", v.And(lang == "java" && structAlias, barElsewhere))
	out, err := chainOf(lang).Process(in)
	if err != nil {
		v.Reach("chain returned an error")
		return
	}
	v.Observe(out)
	v.Observe(symir.CollectSchemas(out))
	v.Assert(symir.AllResolve(out), "C05: the language's chain turned a resolving reference (or mapping target, or entry point) into a dangling one")
	// builder targets
	for _, b := range (&ast.BuilderGenerator{}).FromAST(out) {
		v.Assert(symir.Exists(out, b.For.SelfRef.ReferredPkg, b.For.SelfRef.ReferredType), "C05: a builder targets an object that does not exist")
		for _, o := range b.Options {
			for _, a := range o.Args {
				for _, pos := range symir.Collect(a.Type, "arg", nil) {
					v.Assert(v.Or(!symir.Loaded(out, pos.Pkg), symir.Exists(out, pos.Pkg, pos.Name)), "C05: a builder option argument names an object that does not exist")
				}
			}
		}
	}
}

func VerifC05ChainGo()         { c05Chain("go") }
func VerifC05ChainJava()       { c05Chain("java") }
func VerifC05ChainPHP()        { c05Chain("php") }
func VerifC05ChainPython()     { c05Chain("python") }
func VerifC05ChainTypeScript() { c05Chain("typescript") }

// c06TwoEnumBranches: does some union of t list two (anonymous) enum branches? (shape kinds are concrete on a path)
func c06TwoEnumBranches(t ast.Type) bool {
	switch t.Kind {
	case ast.KindDisjunction:
		n := 0
		for _, b := range t.Disjunction.Branches {
			if b.Kind == ast.KindEnum {
				n++
			}
			if c06TwoEnumBranches(b) {
				return true
			}
		}
		return n >= 2
	case ast.KindArray:
		return c06TwoEnumBranches(t.Array.ValueType)
	case ast.KindMap:
		return c06TwoEnumBranches(t.Map.ValueType)
	case ast.KindStruct:
		for _, f := range t.Struct.Fields {
			if c06TwoEnumBranches(f.Type) {
				return true
			}
		}
	}
	return false
}
