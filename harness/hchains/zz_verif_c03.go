package hchains

import (
	"github.com/grafana/cog/internal/ast"
	"github.com/grafana/cog/internal/ast/compiler"
	v "github.com/grafana/cog/internal/zzverif"
	"github.com/grafana/cog/internal/zzverif/symir"
)

// ---------------------------------------------------------------- C03: determinism under map iteration order
//
// Self-composition: the same function is run twice on (clones of) one symbolic
// input while EVERY map iteration draws its order from the solver; the two results
// must be equal. Any dependence on Go's unspecified map order is a counterexample.

// c03Input: Foo's shape is forked; Bar and Baz each carry TWO constant string fields,
// so a union of references has two discriminator candidates.
func c03Input(g *symir.Gen) ast.Schemas {
	p := ast.NewSchema("p", ast.SchemaMeta{})
	p.AddObject(ast.NewObject("p", "Foo", g.Type(1)))
	for _, n := range []string{"Bar", "Baz"} {
		fields := []ast.StructField{
			ast.NewStructField("type", ast.NewScalar(ast.KindString, ast.Value(v.Str("typeconst", "t1", "t2"))), ast.Required()),
		}
		if v.Bool("secondcandidate") {
			kind := ast.NewStructField("kind", ast.NewScalar(ast.KindString, ast.Value(v.Str("kindconst", "k1", "k2"))), ast.Required())
			// the candidates may be declared in a different order in each branch
			if v.Bool("kindfirst") {
				fields = append([]ast.StructField{kind}, fields...)
			} else {
				fields = append(fields, kind)
			}
		}
		p.AddObject(ast.NewObject("p", n, ast.NewStruct(fields...)))
	}
	return ast.Schemas{p}
}

func c03Chain(lang string) {
	g := c06Gen(false)
	g.Names = []string{"Bar", "Baz"}
	g.Nullable, g.Required = false, false
	g.Leaves = symir.KScalar | symir.KRef | symir.KEnum
	g.Kinds = symir.KRef | symir.KEnum | symir.KArray | symir.KStruct | symir.KDisjunction
	in := c03Input(g)
	in2 := v.Clone(in)
	v.Observe(in)
	chain := chainOf(lang)
	v.SymOrder(true)
	out1, err1 := chain.Process(in)
	out2, err2 := chain.Process(in2)
	v.SymOrder(false)
	v.Assert((err1 == nil) == (err2 == nil), "C03: the chain fails for one map iteration order and succeeds for another")
	if err1 == nil && err2 == nil {
		v.Assert(v.DeepEqualNilEmpty(out1, out2), "C03: the chain's result depends on map iteration order")
	}
}

func VerifC03Go()         { c03Chain("go") }
func VerifC03Java()       { c03Chain("java") }
func VerifC03PHP()        { c03Chain("php") }
func VerifC03Python()     { c03Chain("python") }
func VerifC03TypeScript() { c03Chain("typescript") }

// VerifC03Consolidate: merging inputs of two packages.
func VerifC03Consolidate() {
	mk := func() ast.Schemas {
		a := ast.NewSchema("p", ast.SchemaMeta{})
		a.AddObject(ast.NewObject("p", "Foo", ast.String()))
		b := ast.NewSchema("q", ast.SchemaMeta{})
		b.AddObject(ast.NewObject("q", "Bar", ast.String()))
		c := ast.NewSchema(v.Str("thirdpkg", "p", "q", "r"), ast.SchemaMeta{})
		c.AddObject(ast.NewObject(c.Package, "Baz", ast.String()))
		return ast.Schemas{a, b, c}
	}
	in := mk()
	in2 := v.Clone(in)
	v.SymOrder(true)
	out1, err1 := in.Consolidate()
	out2, err2 := in2.Consolidate()
	v.SymOrder(false)
	v.Assert((err1 == nil) == (err2 == nil), "C03: Consolidate fails for one map iteration order and succeeds for another")
	if err1 == nil && err2 == nil {
		v.Assert(v.DeepEqualNilEmpty(out1, out2), "C03: the order of consolidated schemas depends on map iteration order")
	}
}

// VerifC03FieldsSetDefault: two configured defaults whose keys differ only in case both match one field.
func VerifC03FieldsSetDefault() {
	mk := func() ast.Schemas {
		p := ast.NewSchema("p", ast.SchemaMeta{})
		p.AddObject(ast.NewObject("p", "Foo", ast.NewStruct(ast.NewStructField("a", ast.String()), ast.NewStructField("b", ast.String()))))
		return ast.Schemas{p}
	}
	f1 := compiler.FieldReference{Package: "p", Object: v.Str("obj1", "Foo", "foo"), Field: v.Str("fld1", "a", "A", "b")}
	f2 := compiler.FieldReference{Package: "p", Object: v.Str("obj2", "Foo", "foo"), Field: v.Str("fld2", "a", "A", "b")}
	v.Assume(v.Or(f1.Object != f2.Object, f1.Field != f2.Field))
	pass := &compiler.FieldsSetDefault{DefaultValues: map[compiler.FieldReference]any{f1: "one", f2: "two"}}
	in, in2 := mk(), mk()
	v.SymOrder(true)
	out1, err1 := compiler.Passes{pass}.Process(in)
	out2, err2 := compiler.Passes{pass}.Process(in2)
	v.SymOrder(false)
	v.Assert(err1 == nil && err2 == nil, "C03: fields_set_default returned an error")
	if err1 == nil && err2 == nil {
		v.Assert(v.DeepEqualNilEmpty(out1, out2), "C03: the result of fields_set_default depends on map iteration order")
	}
}
