package hveneers

import (
	"github.com/grafana/cog/internal/ast"
	"github.com/grafana/cog/internal/jennies/golang"
	"github.com/grafana/cog/internal/languages"
	"github.com/grafana/cog/internal/veneers/builder"
	"github.com/grafana/cog/internal/veneers/option"
	"github.com/grafana/cog/internal/veneers/rewrite"
	v "github.com/grafana/cog/internal/zzverif"
)

func c14Structs(p *ast.Schema) {
	p.AddObject(ast.NewObject("p", "Panel", ast.NewStruct(
		ast.NewStructField("type", ast.NewScalar(ast.KindString, ast.Value("panel")), ast.Required()),
		ast.NewStructField("title", ast.String()))))
	p.AddObject(ast.NewObject("p", "Row", ast.NewStruct(
		ast.NewStructField("type", ast.NewScalar(ast.KindString, ast.Value("row")), ast.Required()),
		ast.NewStructField("collapsed", ast.NewScalar(ast.KindBool)))))
}

func c14SamePathIDs(a, b ast.Path) bool {
	if len(a) != len(b) {
		return false
	}
	for i := range a {
		if a[i].Identifier != b[i].Identifier {
			return false
		}
	}
	return true
}

// VerifC14UnionLists: lists of unions (`[...(Panel | Row)]`) exposed as one "append" option per
// branch (array_to_append + disjunction_as_options, after the Go chain turned the union into a
// struct). To rebuild such a list IN ORDER the converter must walk it once and choose the option per
// item: all options appending to one list belong to one repeated mapping over that list, and two
// lists get two mappings. The whole converter must not depend on map iteration order (C03).
func VerifC14UnionLists() {
	p := ast.NewSchema("p", ast.SchemaMeta{})
	union := func() ast.Type { return ast.NewDisjunction(ast.Types{ast.NewRef("p", "Panel"), ast.NewRef("p", "Row")}) }
	fields := []ast.StructField{ast.NewStructField("items", ast.NewArray(union()), ast.Required())}
	lists := []string{"items"}
	if v.Choose(2) == 1 {
		fields = append(fields, ast.NewStructField("extras", ast.NewArray(union()), ast.Required()))
		lists = append(lists, "extras")
	}
	fields = append(fields, ast.NewStructField("title", ast.String()))
	p.AddObject(ast.NewObject("p", "Dash", ast.NewStruct(fields...)))
	c14Structs(p)
	schemas, err := (&golang.Language{}).CompilerPasses().Process(ast.Schemas{p})
	if err != nil {
		v.Reach("chain returned an error")
		return
	}
	builders := (&ast.BuilderGenerator{}).FromAST(schemas)
	var rules []option.RewriteRule
	for _, l := range lists {
		rules = append(rules, option.ArrayToAppend(option.ByName("p", "Dash", l)))
	}
	for _, l := range lists {
		rules = append(rules, option.DisjunctionAsOptions(option.ByName("p", "Dash", l), 0))
	}
	rw := rewrite.NewRewrite([]rewrite.LanguageRules{{Language: rewrite.AllLanguages, OptionRules: rules}}, rewrite.Config{})
	out, err := rw.ApplyTo(schemas, builders, "go")
	if err != nil {
		v.Reach("veneers returned an error")
		return
	}
	ctx := languages.Context{Schemas: schemas, Builders: out}
	nullable := languages.NullableConfig{Kinds: []ast.Kind{ast.KindMap, ast.KindArray}, AnyIsNullable: true}
	for _, b := range out {
		if b.For.Name != "Dash" {
			continue
		}
		v.Observe(b)
		// the options that append to each list
		appendTo := map[string]int{}
		for _, o := range b.Options {
			if len(o.Assignments) == 1 && o.Assignments[0].Method == ast.AppendAssignment && len(o.Assignments[0].Path) == 1 {
				appendTo[o.Assignments[0].Path[0].Identifier]++
			}
		}
		for _, l := range lists {
			v.Assert(appendTo[l] == 2, "C14 (setup): the veneers did not produce one append option per branch")
		}
		v.SymOrder(true)
		conv := languages.NewConverterGenerator(nullable).FromBuilder(ctx, b)
		conv2 := languages.NewConverterGenerator(nullable).FromBuilder(ctx, v.Clone(b))
		v.SymOrder(false)
		v.Assert(v.DeepEqualNilEmpty(conv, conv2), "C03: the converter of a builder depends on map iteration order")
		for _, l := range lists {
			n := 0
			for _, m := range conv.Mappings {
				if len(m.RepeatFor) == 2 && m.RepeatFor[1].Identifier == l {
					n++
					v.Assert(len(m.Options) == 2, "C14: the options appending the branches of one list are not converted within one walk over that list (items would be rebuilt out of order)")
					for _, om := range m.Options {
						v.Assert(len(om.Option.Assignments) == 1 && len(om.Option.Assignments[0].Path) == 1 && om.Option.Assignments[0].Path[0].Identifier == l,
							"C14: a walk over one list calls an option that appends to another")
						v.Assert(len(om.Args) == 1 && len(om.Args[0].Guards) >= 1, "C14: a branch option of a union list is not guarded by its branch")
					}
				}
			}
			v.Assert(n == 1, "C14: a list of unions is not rebuilt by exactly one walk over it")
		}
	}
}

// VerifC14BuilderChoice: when several builders exist for one object (duplicate + initialize, the way
// panel plugins are set up), the converter chooses among them with guards on the constants their
// constructors assign. Every constant of a builder must be among its guards, else two builders
// that differ in a later constant only are indistinguishable and the wrong one is emitted.
func VerifC14BuilderChoice() {
	p := ast.NewSchema("p", ast.SchemaMeta{})
	kind := ast.NewStructField("kind", ast.NewScalar(ast.KindString, ast.Value("panel")), ast.Required())
	typ := ast.NewStructField("type", ast.String(), ast.Required())
	mode := ast.NewStructField("mode", ast.String())
	var barFields []ast.StructField
	if v.Bool("constfirst") {
		barFields = []ast.StructField{kind, typ, mode}
	} else {
		barFields = []ast.StructField{typ, kind, mode}
	}
	p.AddObject(ast.NewObject("p", "Bar", ast.NewStruct(barFields...)))
	p.AddObject(ast.NewObject("p", "Foo", ast.NewStruct(ast.NewStructField("bar", ast.NewRef("p", "Bar"), ast.Required()))))
	schemas := ast.Schemas{p}
	builders := (&ast.BuilderGenerator{}).FromAST(schemas)
	inits := func(t string) []builder.Initialization {
		out := []builder.Initialization{{PropertyPath: "type", Value: t}}
		if v.Bool("twoinits") {
			out = append(out, builder.Initialization{PropertyPath: "mode", Value: "m" + t})
		}
		return out
	}
	rules := []builder.RewriteRule{
		builder.Duplicate(builder.ByObjectName("p", "Bar"), "TextBar", nil),
		builder.Initialize(builder.ByName("p", "TextBar"), inits("text")),
		builder.Initialize(builder.ByName("p", "Bar"), inits("graph")),
	}
	rw := rewrite.NewRewrite([]rewrite.LanguageRules{{Language: rewrite.AllLanguages, BuilderRules: rules}}, rewrite.Config{})
	out, err := rw.ApplyTo(schemas, builders, "go")
	if err != nil {
		v.Reach("veneers returned an error")
		return
	}
	ctx := languages.Context{Schemas: schemas, Builders: out}
	nullable := languages.NullableConfig{Kinds: []ast.Kind{ast.KindMap, ast.KindArray}, AnyIsNullable: true}
	for _, b := range out {
		if b.For.Name != "Foo" {
			continue
		}
		conv := languages.NewConverterGenerator(nullable).FromBuilder(ctx, b)
		found := false
		for _, m := range conv.Mappings {
			for _, om := range m.Options {
				for _, arg := range om.Args {
					if len(arg.BuilderDisjunction) == 0 {
						continue
					}
					found = true
					v.Assert(len(arg.BuilderDisjunction) == 2, "C14: not every builder of the object is a candidate")
					for _, choice := range arg.BuilderDisjunction {
						// the candidate's own constructor constants
						for _, cand := range out {
							if cand.Name != choice.Builder.BuilderName || cand.Package != choice.Builder.BuilderPkg {
								continue
							}
							for _, as := range cand.Constructor.Assignments {
								if as.Value.Constant == nil {
									continue
								}
								has := false
								for _, g := range choice.Guards {
									if g.Op == ast.EqualOp && len(g.Path) == len(choice.Builder.ValuePath)+len(as.Path) &&
										c14SamePathIDs(g.Path[len(choice.Builder.ValuePath):], as.Path) && v.DeepEqual(g.Value, as.Value.Constant) {
										has = true
									}
								}
								v.Assert(has, "C14: a candidate builder is not guarded by every constant its constructor assigns (two builders become indistinguishable)")
							}
						}
					}
					if len(arg.BuilderDisjunction) == 2 {
						v.Assert(!v.DeepEqualNilEmpty(arg.BuilderDisjunction[0].Guards, arg.BuilderDisjunction[1].Guards), "C14: two candidate builders have the same guards")
					}
				}
			}
		}
		v.Assert(found, "C14: an argument with several candidate builders is not converted as a choice among them")
	}
}

// VerifC14BuilderChoicePartial: several builders for one object of which only SOME pin a constant in their
// constructor (symbolic which: the original, the duplicate, both, none). A choice among builders is only
// decidable when every candidate has a constant to be recognised by: otherwise the converter must delegate to
// one builder, and a choice with a candidate that has no guard (rendered as `if  {`) is never emitted.
func VerifC14BuilderChoicePartial() {
	p := ast.NewSchema("p", ast.SchemaMeta{})
	typ := ast.NewStructField("type", ast.String(), ast.Required())
	mode := ast.NewStructField("mode", ast.String())
	p.AddObject(ast.NewObject("p", "Bar", ast.NewStruct(typ, mode)))
	p.AddObject(ast.NewObject("p", "Foo", ast.NewStruct(ast.NewStructField("bar", ast.NewRef("p", "Bar"), ast.Required()))))
	schemas := ast.Schemas{p}
	builders := (&ast.BuilderGenerator{}).FromAST(schemas)
	which := v.Choose(4) // 0: duplicate only, 1: original only, 2: both, 3: none
	dupFirst := v.Bool("dupinitfirst")
	rules := []builder.RewriteRule{builder.Duplicate(builder.ByObjectName("p", "Bar"), "TextBar", nil)}
	initDup := builder.Initialize(builder.ByName("p", "TextBar"), []builder.Initialization{{PropertyPath: "type", Value: "text"}})
	initOrig := builder.Initialize(builder.ByName("p", "Bar"), []builder.Initialization{{PropertyPath: "type", Value: "graph"}})
	switch which {
	case 0:
		rules = append(rules, initDup)
	case 1:
		rules = append(rules, initOrig)
	case 2:
		if dupFirst {
			rules = append(rules, initDup, initOrig)
		} else {
			rules = append(rules, initOrig, initDup)
		}
	}
	rw := rewrite.NewRewrite([]rewrite.LanguageRules{{Language: rewrite.AllLanguages, BuilderRules: rules}}, rewrite.Config{})
	out, err := rw.ApplyTo(schemas, builders, "go")
	if err != nil {
		v.Reach("veneers returned an error")
		return
	}
	ctx := languages.Context{Schemas: schemas, Builders: out}
	nullable := languages.NullableConfig{Kinds: []ast.Kind{ast.KindMap, ast.KindArray}, AnyIsNullable: true}
	for _, b := range out {
		if b.For.Name != "Foo" {
			continue
		}
		conv := languages.NewConverterGenerator(nullable).FromBuilder(ctx, b)
		seen := false
		for _, m := range conv.Mappings {
			for _, om := range m.Options {
				for _, arg := range om.Args {
					seen = true
					v.Assert(c14OneHot(arg) == 1, "C14: an argument mapping does not name exactly one mapping kind")
					for _, choice := range arg.BuilderDisjunction {
						v.Assert(len(choice.Guards) >= 1, "C14: a candidate builder of a choice has no guard (no constant to recognise it by): the emitted condition is empty")
					}
					if which == 2 {
						v.Assert(len(arg.BuilderDisjunction) == 2, "C14: builders that all pin a constant are not converted as a guarded choice")
					} else {
						v.Assert(len(arg.BuilderDisjunction) == 0 && arg.Builder != nil, "C14: builders that do not all pin a constant are not converted by delegating to one builder")
					}
				}
			}
		}
		v.Assert(seen, "C14: the option taking the object with several builders is not converted")
	}
}

// VerifC03Compose (C03): the `compose` builder rule groups the builders of composable plugins (panel options,
// field config) by plugin type in a Go map and emits one composed builder per type. With two plugin types
// the list of builders it returns (what `cog inspect` shows, and the order later rules and jennies see)
// must not depend on map iteration order.
func VerifC03Compose() {
	dash := ast.NewSchema("dash", ast.SchemaMeta{})
	dash.AddObject(ast.NewObject("dash", "Panel", ast.NewStruct(
		ast.NewStructField("type", ast.String(), ast.Required()),
		ast.NewStructField("title", ast.String()),
		ast.NewStructField("options", ast.Any()),
	)))
	plugin := func(pkg, id string) *ast.Schema {
		s := ast.NewSchema(pkg, ast.SchemaMeta{Kind: ast.SchemaKindComposable, Variant: ast.SchemaVariantPanel, Identifier: id})
		s.AddObject(ast.NewObject(pkg, "Options", ast.NewStruct(ast.NewStructField("unit", ast.String()))))
		return s
	}
	schemas := ast.Schemas{dash, plugin("gauge", "gauge"), plugin("stat", "stat")}
	if v.Bool("thirdplugin") {
		schemas = append(schemas, plugin("text", "text"))
	}
	rule := builder.ComposeBuilders(builder.ByVariant(ast.SchemaVariantPanel), builder.CompositionConfig{
		SourceBuilderName:        "dash.Panel",
		PluginDiscriminatorField: "type",
		CompositionMap:           map[string]string{"Options": "options"},
		ComposedBuilderName:      "Panel",
	})
	run := func() ([]ast.Builder, error) {
		builders := (&ast.BuilderGenerator{}).FromAST(schemas)
		rw := rewrite.NewRewrite([]rewrite.LanguageRules{{Language: rewrite.AllLanguages, BuilderRules: []builder.RewriteRule{rule}}}, rewrite.Config{})
		return rw.ApplyTo(schemas, builders, "go")
	}
	v.SymOrder(true)
	out1, err1 := run()
	out2, err2 := run()
	v.SymOrder(false)
	v.Assert((err1 == nil) == (err2 == nil), "C03: whether the compose rule fails depends on map iteration order")
	if err1 != nil || err2 != nil {
		v.Reach("compose returned an error")
		return
	}
	v.Assert(len(out1) >= 3, "C03 (setup): the compose rule did not produce one composed builder per plugin")
	v.Assert(v.DeepEqualNilEmpty(out1, out2), "C03: the builders the compose rule returns depend on map iteration order")
}

// VerifC03LanguageRefs (C03): the list of output languages handed to the repository templates.
func VerifC03LanguageRefs() {
	langs := languages.Languages{"go": nil, "python": nil, "typescript": nil}
	v.SymOrder(true)
	r1 := langs.AsLanguageRefs()
	r2 := langs.AsLanguageRefs()
	v.SymOrder(false)
	v.Assert(v.DeepEqual(r1, r2), "C03: the list of languages handed to the repository templates depends on map iteration order")
}
