// Package hveneers hosts the builder-transformation (veneer) harnesses.
package hveneers

import (
	"strings"

	"github.com/grafana/cog/internal/ast"
	"github.com/grafana/cog/internal/veneers/builder"
	"github.com/grafana/cog/internal/veneers/option"
	"github.com/grafana/cog/internal/veneers/rewrite"
	v "github.com/grafana/cog/internal/zzverif"
)

// ---------------------------------------------------------------- inputs: builders derived by the REAL FromAST

const (
	fkString = iota
	fkArray
	fkMap
	fkBool
	fkRefStruct
	fkAnonStruct
	fkUnion
	fkCount
)

func c17FieldType(kind int) ast.Type {
	switch kind {
	case fkString:
		t := ast.String()
		if v.Bool("default") {
			t.Default = "dflt"
		}
		if v.Bool("constraint") {
			t.Scalar.Constraints = []ast.TypeConstraint{{Op: ast.MinLengthOp, Args: []any{int64(1)}}}
		}
		return t
	case fkArray:
		return ast.NewArray(ast.String())
	case fkMap:
		return ast.NewMap(ast.String(), ast.NewScalar(ast.KindInt64))
	case fkBool:
		t := ast.NewScalar(ast.KindBool)
		if v.Bool("default") {
			t.Default = v.Bool("defaultvalue")
		}
		return t
	case fkRefStruct:
		return ast.NewRef("p", "Bar")
	case fkAnonStruct:
		n := ast.String()
		if v.Bool("nconstraint") {
			n.Scalar.Constraints = []ast.TypeConstraint{{Op: ast.MinLengthOp, Args: []any{int64(2)}}}
		}
		// the field may carry its own default, and the struct a default with a partial override for it
		if v.Bool("nowndefault") {
			n.Default = "own"
		}
		st := ast.NewStruct(ast.NewStructField("n", n), ast.NewStructField("l", ast.NewArray(ast.String())), ast.NewStructField("m", ast.NewScalar(ast.KindBool), ast.Required()))
		if v.Bool("structdefault") {
			st.Default = map[string]any{"n": "override"}
		}
		return st
	default:
		return ast.NewDisjunction(ast.Types{ast.String(), ast.NewScalar(ast.KindBool)})
	}
}

var c17FieldNames = [][]string{{"a", "tags"}, {"b", "B"}}

// c17Schemas: p{ Bar struct{x int64 >=1, y const}, Foo struct{2 fields of forked kinds}, foo struct{a string} }
func c17Schemas() ast.Schemas {
	p := ast.NewSchema("p", ast.SchemaMeta{})
	x := ast.NewScalar(ast.KindInt64)
	x.Scalar.Constraints = []ast.TypeConstraint{{Op: ast.GreaterThanEqualOp, Args: []any{int64(1)}}}
	p.AddObject(ast.NewObject("p", "Bar", ast.NewStruct(
		ast.NewStructField("x", x, ast.Required()),
		ast.NewStructField("y", ast.NewScalar(ast.KindString, ast.Value("k")), ast.Required()),
		ast.NewStructField("z", ast.String()),
	)))
	var fields []ast.StructField
	for i := 0; i < 2; i++ {
		kind := 0
		if i == 0 || v.Tier() > 0 {
			kind = v.Choose(fkCount)
		} else {
			kind = []int{fkString, fkBool}[v.Choose(2)]
		}
		t := c17FieldType(kind)
		t.Nullable = v.Bool("nullable")
		f := ast.NewStructField(v.Str("fieldname", c17FieldNames[i]...), t)
		f.Required = v.Bool("required")
		fields = append(fields, f)
	}
	p.AddObject(ast.NewObject("p", "Foo", ast.NewStruct(fields...)))
	p.AddObject(ast.NewObject("p", "foo", ast.NewStruct(ast.NewStructField("a", ast.String()))))
	return ast.Schemas{p}
}

// ---------------------------------------------------------------- generic oracles

func c17Resolve(schemas ast.Schemas, t ast.Type) ast.Type {
	for i := 0; i < 8 && t.Kind == ast.KindRef; i++ {
		o, ok := schemas.LocateObject(t.Ref.ReferredPkg, t.Ref.ReferredType)
		if !ok {
			return t
		}
		t = o.Type
	}
	return t
}

// c17SameType: equal types up to the default value and debug trail carried by the position.
func c17SameType(a, b ast.Type) bool {
	a, b = v.Clone(a), v.Clone(b)
	a.Default, b.Default = nil, nil
	a.PassesTrail, b.PassesTrail = nil, nil
	return v.DeepEqualNilEmpty(a, b)
}

// c17PathOK: the path names an existing chain of fields of the built object, with matching types.
func c17PathOK(schemas ast.Schemas, root ast.Type, path ast.Path) bool {
	cur := root
	ok := true
	for _, item := range path {
		cur = c17Resolve(schemas, cur)
		if item.Identifier == "" && item.Index != nil {
			// pure index step (map_to_index): into the element type
			switch cur.Kind {
			case ast.KindMap:
				cur = cur.Map.ValueType
			case ast.KindArray:
				cur = cur.Array.ValueType
			default:
				return false
			}
			ok = v.And(ok, c17SameType(item.Type, cur))
			continue
		}
		if cur.Kind != ast.KindStruct {
			return false
		}
		f, found := cur.Struct.FieldByName(item.Identifier)
		if !found {
			return false
		}
		ok = v.And(ok, c17SameType(item.Type, f.Type))
		cur = f.Type
		if item.Index != nil {
			r := c17Resolve(schemas, cur)
			switch r.Kind {
			case ast.KindMap:
				cur = r.Map.ValueType
			case ast.KindArray:
				cur = r.Array.ValueType
			default:
				return false
			}
		}
		if item.TypeHint != nil {
			cur = *item.TypeHint
		}
	}
	return ok
}

func c17Declared(args []ast.Argument, a ast.Argument) bool {
	found := false
	for _, d := range args {
		// same name and type (promote_options_to_constructor declares the argument non-nullable on purpose)
		dt, at := v.Clone(d.Type), v.Clone(a.Type)
		dt.Nullable, at.Nullable = false, false
		found = v.Or(found, v.And(d.Name == a.Name, v.DeepEqualNilEmpty(dt, at)))
	}
	return found
}

// c17ValueArgs lists the arguments a value uses (envelopes included).
func c17ValueArgs(val ast.AssignmentValue, out []ast.Argument) []ast.Argument {
	if val.Argument != nil {
		out = append(out, *val.Argument)
	}
	if val.Envelope != nil {
		for _, ev := range val.Envelope.Values {
			out = c17ValueArgs(ev.Value, out)
		}
	}
	return out
}

func c17AssignmentArgs(as ast.Assignment) []ast.Argument {
	out := c17ValueArgs(as.Value, nil)
	for _, item := range as.Path {
		if item.Index != nil && item.Index.Argument != nil {
			out = append(out, *item.Index.Argument)
		}
	}
	for _, c := range as.Constraints {
		out = append(out, c.Argument)
	}
	return out
}

// c17WellFormed asserts (i) path typing and (ii) argument declaration for every builder.
func c17WellFormed(schemas ast.Schemas, builders []ast.Builder) {
	for _, b := range builders {
		for _, as := range b.Constructor.Assignments {
			v.Assert(c17PathOK(schemas, b.For.Type, as.Path), "C17: a constructor assignment path does not name an existing, type-matching chain of fields")
			for _, a := range c17AssignmentArgs(as) {
				v.Assert(c17Declared(b.Constructor.Args, a), "C17: a constructor assignment uses an argument the constructor does not declare")
			}
		}
		for _, o := range b.Options {
			for _, as := range o.Assignments {
				v.Assert(c17PathOK(schemas, b.For.Type, as.Path), "C17: an option assignment path does not name an existing, type-matching chain of fields")
				for _, a := range c17AssignmentArgs(as) {
					v.Assert(v.Or(c17Declared(o.Args, a), c17Declared(b.Constructor.Args, a)), "C17: an option assignment uses an argument neither the option nor the constructor declares")
				}
			}
		}
	}
}

func c17NoTrail(o ast.Option) ast.Option {
	o = v.Clone(o)
	o.VeneerTrail = nil
	return o
}

func c17SameOption(a, b ast.Option) bool { return v.DeepEqualNilEmpty(c17NoTrail(a), c17NoTrail(b)) }

func c17NoTrailB(b ast.Builder) ast.Builder {
	b = v.Clone(b)
	b.VeneerTrail = nil
	for i := range b.Options {
		b.Options[i].VeneerTrail = nil
	}
	return b
}

func c17SameBuilder(a, b ast.Builder) bool { return v.DeepEqualNilEmpty(c17NoTrailB(a), c17NoTrailB(b)) }

// ---------------------------------------------------------------- option rules

const (
	orRename = iota
	orRenameArgs
	orArrayToAppend
	orMapToIndex
	orOmit
	orUnfoldBoolean
	orStructFieldsAsArguments
	orStructFieldsAsOptions
	orDisjunctionAsOptions
	orDuplicate
	orAddComments
	orCount
)

func c17OptionRule(kind int, sel option.Selector) option.RewriteRule {
	switch kind {
	case orRename:
		return option.Rename(sel, "renamed")
	case orRenameArgs:
		return option.RenameArguments(sel, []string{"z"})
	case orArrayToAppend:
		return option.ArrayToAppend(sel)
	case orMapToIndex:
		return option.MapToIndex(sel)
	case orOmit:
		return option.Omit(sel)
	case orUnfoldBoolean:
		return option.UnfoldBoolean(sel, option.BooleanUnfold{OptionTrue: "on", OptionFalse: "off"})
	case orStructFieldsAsArguments:
		return option.StructFieldsAsArguments(sel)
	case orStructFieldsAsOptions:
		return option.StructFieldsAsOptions(sel)
	case orDisjunctionAsOptions:
		return option.DisjunctionAsOptions(sel, 0)
	case orDuplicate:
		return option.Duplicate(sel, "dup")
	default:
		return option.AddComments(sel, []string{"veneer comment"})
	}
}

// c17StructOf: the struct an option's first argument denotes (directly or through one reference).
func c17StructOf(schemas ast.Schemas, o ast.Option) (ast.StructType, bool) {
	if len(o.Args) < 1 {
		return ast.StructType{}, false
	}
	t := o.Args[0].Type
	if t.Kind == ast.KindRef {
		if obj, ok := schemas.LocateObject(t.Ref.ReferredPkg, t.Ref.ReferredType); ok {
			t = obj.Type
		}
	}
	if t.Kind != ast.KindStruct {
		return ast.StructType{}, false
	}
	return *t.Struct, true
}

func c17SamePath(a, b ast.Path) bool { return v.DeepEqualNilEmpty(a, b) }

// c17CheckOptionContract asserts the documented contract of one option rule on one
// selected option: `in` is the option before, `outs` what the rule produced for it.
func c17CheckOptionContract(kind int, schemas ast.Schemas, in ast.Option, outs []ast.Option) {
	unchanged := func() {
		v.Assert(len(outs) == 1 && c17SameOption(outs[0], in), "C17: a rule that does not apply to an option did not leave it unchanged")
	}
	target := in.Assignments[0].Path
	switch kind {
	case orRename:
		v.Assert(len(outs) == 1, "C17: rename produced a different number of options")
		if len(outs) == 1 {
			want := v.Clone(in)
			want.Name = "renamed"
			v.Assert(c17SameOption(outs[0], want), "C17: rename changed something other than the option's name")
		}
	case orRenameArgs:
		if len(in.Args) != 1 {
			unchanged()
			return
		}
		v.Assert(len(outs) == 1 && len(outs[0].Args) == 1 && outs[0].Args[0].Name == "z", "C17: rename_arguments did not rename the argument")
		if len(outs) == 1 {
			v.Assert(outs[0].Name == in.Name && len(outs[0].Assignments) == len(in.Assignments) && c17SamePath(outs[0].Assignments[0].Path, target),
				"C17: rename_arguments changed the option's name or target")
		}
	case orArrayToAppend:
		if len(in.Args) != 1 || in.Args[0].Type.Kind != ast.KindArray {
			unchanged()
			return
		}
		v.Assert(len(outs) == 1 && len(outs[0].Assignments) == 1, "C17: array_to_append produced a different number of options/assignments")
		if len(outs) == 1 && len(outs[0].Assignments) == 1 {
			v.Assert(c17SamePath(outs[0].Assignments[0].Path, target), "C17: array_to_append no longer assigns the same target")
			v.Assert(outs[0].Assignments[0].Method == ast.AppendAssignment, "C17: array_to_append does not append")
			v.Assert(len(outs[0].Args) == 1 && v.DeepEqualNilEmpty(outs[0].Args[0].Type, in.Args[0].Type.Array.ValueType), "C17: array_to_append argument is not the element type")
		}
	case orMapToIndex:
		if len(in.Args) != 1 || in.Args[0].Type.Kind != ast.KindMap {
			unchanged()
			return
		}
		v.Assert(len(outs) == 1 && len(outs[0].Assignments) == 1 && len(outs[0].Args) == 2, "C17: map_to_index produced a different number of options/assignments/arguments")
		if len(outs) == 1 && len(outs[0].Assignments) == 1 && len(outs[0].Args) == 2 {
			p := outs[0].Assignments[0].Path
			v.Assert(len(p) == len(target)+1 && c17SamePath(p[:len(target)], target), "C17: map_to_index no longer assigns (an entry of) the same target")
			v.Assert(outs[0].Assignments[0].Method == ast.IndexAssignment, "C17: map_to_index does not index")
			v.Assert(v.DeepEqualNilEmpty(outs[0].Args[0].Type, in.Args[0].Type.Map.IndexType) && v.DeepEqualNilEmpty(outs[0].Args[1].Type, in.Args[0].Type.Map.ValueType),
				"C17: map_to_index arguments are not the key and value types")
		}
	case orOmit:
		v.Assert(len(outs) == 0, "C17: omit did not remove the option")
	case orUnfoldBoolean:
		tt := target.Last().Type
		if tt.Kind != ast.KindScalar || tt.Scalar.ScalarKind != ast.KindBool {
			unchanged()
			return
		}
		v.Assert(len(outs) == 2, "C17: unfold_boolean did not produce two options")
		if len(outs) == 2 {
			for i, want := range []bool{true, false} {
				o := outs[i]
				v.Assert(len(o.Args) == 0 && len(o.Assignments) == 1, "C17: unfold_boolean option takes arguments or has several assignments")
				if len(o.Assignments) == 1 {
					v.Assert(c17SamePath(o.Assignments[0].Path, target), "C17: unfold_boolean no longer assigns the same target")
					c, isBool := o.Assignments[0].Value.Constant.(bool)
					v.Assert(isBool && c == want, "C17: unfold_boolean option does not assign its constant")
				}
			}
			v.Assert(outs[0].Name == "on" && outs[1].Name == "off", "C17: unfold_boolean options are misnamed")
		}
	case orStructFieldsAsArguments:
		st, ok := c17StructOf(schemas, in)
		if !ok {
			unchanged()
			return
		}
		v.Assert(len(outs) == 1, "C17: struct_fields_as_arguments produced a different number of options")
		if len(outs) == 1 {
			v.Assert(len(outs[0].Assignments) == len(st.Fields), "C17: struct_fields_as_arguments does not assign every field once")
			if len(outs[0].Assignments) == len(st.Fields) {
				for i, f := range st.Fields {
					p := outs[0].Assignments[i].Path
					v.Assert(len(p) == len(target)+1 && c17SamePath(p[:len(target)], target) && p[len(p)-1].Identifier == f.Name,
						"C17: struct_fields_as_arguments no longer assigns (a field of) the same target")
					// a struct-level default for a field takes precedence over the field's own default
					if in.Default != nil && len(in.Default.ArgsValues) == 1 {
						if overrides, isMap := in.Default.ArgsValues[0].(map[string]any); isMap {
							if want, has := overrides[f.Name]; has && !f.Type.IsConcreteScalar() {
								for _, a := range outs[0].Args {
									if a.Name == f.Name {
										v.Assert(v.DeepEqual(a.Type.Default, want), "C17: struct_fields_as_arguments ignores the struct-level default of a field")
									}
								}
							}
						}
					}
					// each argument is guarded by exactly the constraints of its field
					var want []ast.TypeConstraint
					if f.Type.IsScalar() && !f.Type.IsConcreteScalar() {
						want = f.Type.Scalar.Constraints
					}
					got := outs[0].Assignments[i].Constraints
					v.Assert(len(got) == len(want), "C17: struct_fields_as_arguments guards an argument with constraints its field does not have (or drops them)")
					for k := range want {
						if k < len(got) {
							v.Assert(got[k].Op == want[k].Op && got[k].Argument.Name == f.Name && len(want[k].Args) == 1 && v.DeepEqual(got[k].Parameter, want[k].Args[0]),
								"C17: struct_fields_as_arguments changed a constraint of a field")
						}
					}
				}
			}
		}
	case orStructFieldsAsOptions:
		st, ok := c17StructOf(schemas, in)
		if !ok {
			unchanged()
			return
		}
		v.Assert(len(outs) == len(st.Fields), "C17: struct_fields_as_options does not produce one option per field")
		if len(outs) == len(st.Fields) {
			for i, f := range st.Fields {
				v.Assert(len(outs[i].Assignments) == 1, "C17: struct_fields_as_options option has several assignments")
				if len(outs[i].Assignments) == 1 {
					p := outs[i].Assignments[0].Path
					v.Assert(len(p) == len(target)+1 && c17SamePath(p[:len(target)], target) && p[len(p)-1].Identifier == f.Name,
						"C17: struct_fields_as_options no longer assigns (a field of) the same target")
				}
			}
		}
	case orDisjunctionAsOptions:
		if len(in.Args) == 0 || in.Args[0].Type.Kind != ast.KindDisjunction {
			unchanged()
			return
		}
		br := in.Args[0].Type.Disjunction.Branches
		v.Assert(len(outs) == len(br), "C17: disjunction_as_options does not produce one option per branch")
		if len(outs) == len(br) {
			for i := range br {
				v.Assert(len(outs[i].Assignments) == 1 && len(outs[i].Args) == 1, "C17: disjunction_as_options option has several assignments/arguments")
				if len(outs[i].Assignments) == 1 && len(outs[i].Args) == 1 {
					v.Assert(c17SamePath(outs[i].Assignments[0].Path, target), "C17: disjunction_as_options no longer assigns the same target")
					v.Assert(v.DeepEqualNilEmpty(outs[i].Args[0].Type, br[i]), "C17: disjunction_as_options argument is not the branch type")
				}
			}
		}
	case orDuplicate:
		v.Assert(len(outs) == 2, "C17: duplicate did not produce the option and its copy")
		if len(outs) == 2 {
			v.Assert(c17SameOption(outs[0], in), "C17: duplicate changed the original option")
			want := v.Clone(in)
			want.Name = "dup"
			v.Assert(c17SameOption(outs[1], want), "C17: the duplicated option is not identical to its source (defaults included) under the new name")
			v.Assert(v.SharedHeap(outs[0], outs[1]) != "structure", "C17: the duplicated option shares structure with its source")
		}
	default:
		v.Assert(len(outs) == 1, "C17: add_comments produced a different number of options")
		if len(outs) == 1 {
			want := v.Clone(in)
			want.Comments = append(append([]string{}, in.Comments...), "veneer comment")
			v.Assert(c17SameOption(outs[0], want), "C17: add_comments changed something other than the comments")
		}
	}
}

// c17Produced: how many options the rule produces for a selected option (from the contract).
func c17Produced(kind int, schemas ast.Schemas, in ast.Option) int {
	switch kind {
	case orOmit:
		return 0
	case orDuplicate:
		return 2
	case orUnfoldBoolean:
		tt := in.Assignments[0].Path.Last().Type
		if tt.Kind == ast.KindScalar && tt.Scalar.ScalarKind == ast.KindBool {
			return 2
		}
	case orStructFieldsAsOptions:
		if st, ok := c17StructOf(schemas, in); ok {
			return len(st.Fields)
		}
	case orDisjunctionAsOptions:
		if len(in.Args) > 0 && in.Args[0].Type.Kind == ast.KindDisjunction {
			return len(in.Args[0].Type.Disjunction.Branches)
		}
	}
	return 1
}

// VerifC17OptionRule: one option rule with a symbolic selector on builders derived by FromAST.
func VerifC17OptionRule() {
	schemas := c17Schemas()
	builders := (&ast.BuilderGenerator{}).FromAST(schemas)
	kind := v.Choose(orCount)
	selObj := v.Str("selobj", "Foo", "foo", "FOO", "Nope")
	selOpt := v.Str("selopt", "a", "A", "tags", "b", "nope")
	selected := func(b ast.Builder, o ast.Option) bool {
		// documented: package exact, object and option names case-insensitive
		return v.And(b.For.SelfRef.ReferredPkg == "p", v.And(strings.EqualFold(b.For.Name, selObj), strings.EqualFold(o.Name, selOpt)))
	}
	before := v.Clone(builders)
	v.Observe(before)
	rw := rewrite.NewRewrite([]rewrite.LanguageRules{{Language: rewrite.AllLanguages, OptionRules: []option.RewriteRule{c17OptionRule(kind, option.ByName("p", selObj, selOpt))}}}, rewrite.Config{})
	out, err := rw.ApplyTo(schemas, builders, "go")
	v.Assert(err == nil, "C17: an option rule made ApplyTo fail")
	if err != nil {
		return
	}
	v.Observe(out)
	c17WellFormed(schemas, out)
	// frame + contract: walk input and output options in step
	oi := 0
	for _, bIn := range before {
		// a builder left without options is dismissed
		remaining := 0
		for _, o := range bIn.Options {
			if selected(bIn, o) {
				remaining += c17Produced(kind, schemas, o)
			} else {
				remaining++
			}
		}
		if remaining == 0 {
			continue
		}
		v.Assert(oi < len(out), "C17: a builder is missing after an option rule")
		if oi >= len(out) {
			return
		}
		bOut := out[oi]
		oi++
		v.Assert(bOut.Name == bIn.Name && v.DeepEqualNilEmpty(bOut.For, bIn.For) && v.DeepEqualNilEmpty(bOut.Constructor, bIn.Constructor),
			"C17: an option rule changed a builder's identity, object or constructor")
		k := 0
		for _, o := range bIn.Options {
			if !selected(bIn, o) {
				v.Assert(k < len(bOut.Options) && c17SameOption(bOut.Options[k], o), "C17: an option not selected by the rule was changed, moved or dropped")
				k++
				continue
			}
			n := c17Produced(kind, schemas, o)
			v.Assert(k+n <= len(bOut.Options), "C17: a rule produced fewer options than its contract says")
			if k+n > len(bOut.Options) {
				return
			}
			c17CheckOptionContract(kind, schemas, o, bOut.Options[k:k+n])
			k += n
		}
		v.Assert(k == len(bOut.Options), "C17: a rule produced more options than its contract says")
	}
	v.Assert(oi == len(out), "C17: an option rule added a builder")
}

// ---------------------------------------------------------------- builder rules

const (
	brOmit = iota
	brRename
	brDuplicate
	brProperties
	brPromote
	brCount
)

var c17Excluded []string

// VerifC17BuilderRule: one builder rule with a symbolic selector.
func VerifC17BuilderRule() {
	schemas := c17Schemas()
	builders := (&ast.BuilderGenerator{}).FromAST(schemas)
	// give the builders something a copy could lose
	for i := range builders {
		if builders[i].Name == "Foo" && v.Bool("factory") {
			builders[i].Factories = []ast.BuilderFactory{{Name: "NewDefault", OptionCalls: []ast.OptionCall{{Name: builders[i].Options[0].Name}}}}
		}
	}
	kind := v.Choose(brCount)
	c17Excluded = nil
	selObj := v.Str("selobj", "Foo", "foo", "FOO", "Bar", "Nope")
	byName := v.Bool("byname")
	sel := builder.ByObjectName("p", selObj)
	if byName {
		sel = builder.ByName("p", selObj)
	}
	selected := func(b ast.Builder) bool {
		return v.And(strings.EqualFold(b.For.SelfRef.ReferredPkg, "p"), strings.EqualFold(b.Name, selObj)) // builder name == object name before any rename
	}
	promote := v.Str("promote", "a", "tags", "b", "nope")
	var rule builder.RewriteRule
	switch kind {
	case brOmit:
		rule = builder.Omit(sel)
	case brRename:
		rule = builder.Rename(sel, "Renamed")
	case brDuplicate:
		var exclude []string
		if v.Bool("exclude") {
			exclude = []string{v.Str("excluded", "a", "A", "b")}
		}
		rule = builder.Duplicate(sel, "Dup", exclude)
		c17Excluded = exclude
	case brProperties:
		rule = builder.Properties(sel, []ast.StructField{ast.NewStructField("prop", ast.String())})
	default:
		rule = builder.PromoteOptionsToConstructor(sel, []string{promote})
	}
	before := v.Clone(builders)
	v.Observe(before)
	rw := rewrite.NewRewrite([]rewrite.LanguageRules{{Language: rewrite.AllLanguages, BuilderRules: []builder.RewriteRule{rule}}}, rewrite.Config{})
	out, err := rw.ApplyTo(schemas, builders, "go")
	if err != nil {
		hasFactory := false
		for _, b := range before {
			hasFactory = hasFactory || (len(b.Factories) != 0)
		}
		v.Assert(kind == brPromote && hasFactory, "C17: a builder rule made ApplyTo fail")
		return
	}
	v.Observe(out)
	c17WellFormed(schemas, out)
	switch kind {
	case brOmit:
		k := 0
		for _, b := range before {
			if selected(b) {
				continue
			}
			v.Assert(k < len(out) && c17SameBuilder(out[k], b), "C17: omit changed, moved or dropped a builder it did not select")
			k++
		}
		v.Assert(k == len(out), "C17: omit did not remove exactly the selected builders")
	case brRename:
		v.Assert(len(out) == len(before), "C17: rename changed the number of builders")
		if len(out) == len(before) {
			for i, b := range before {
				want := v.Clone(b)
				if selected(b) {
					want.Name = "Renamed"
				}
				v.Assert(c17SameBuilder(out[i], want), "C17: rename changed something other than the selected builder's name")
			}
		}
	case brDuplicate:
		// reference: one copy per selected builder, identical except the name and the
		// excluded options; a copy left without options is dismissed like any builder
		var want []ast.Builder
		for _, b := range before {
			if !selected(b) {
				continue
			}
			d := v.Clone(b)
			d.Name = "Dup"
			if len(c17Excluded) != 0 {
				var keep []ast.Option
				for _, o := range d.Options {
					if !strings.EqualFold(o.Name, c17Excluded[0]) {
						keep = append(keep, o)
					}
				}
				d.Options = keep
			}
			if len(d.Options) != 0 {
				want = append(want, d)
			}
		}
		for i, b := range before {
			v.Assert(i < len(out) && c17SameBuilder(out[i], b), "C17: duplicate changed an existing builder")
		}
		v.Assert(len(out) == len(before)+len(want), "C17: duplicate did not add one builder per selected builder")
		if len(out) == len(before)+len(want) {
			for k, w := range want {
				d := out[len(before)+k]
				v.Assert(v.DeepEqualNilEmpty(d.Factories, w.Factories), "C17: the duplicated builder lost or changed its factories")
				v.Assert(c17SameBuilder(d, w), "C17: the duplicated builder is not identical to its source (defaults included) under the new name")
			}
			for k := range want {
				for _, b := range before {
					v.Assert(v.SharedHeap(out[len(before)+k], b) != "structure", "C17: the duplicated builder shares structure with its source")
				}
			}
		}
	case brProperties:
		v.Assert(len(out) == len(before), "C17: properties changed the number of builders")
		if len(out) == len(before) {
			for i, b := range before {
				want := v.Clone(b)
				if selected(b) {
					want.Properties = append(want.Properties, ast.NewStructField("prop", ast.String()))
				}
				v.Assert(c17SameBuilder(out[i], want), "C17: properties changed something other than the selected builder's properties")
			}
		}
	default:
		v.Assert(len(out) == len(before), "C17: promote_options_to_constructor changed the number of builders")
		if len(out) == len(before) {
			for i, b := range before {
				if !selected(b) {
					v.Assert(c17SameBuilder(out[i], b), "C17: promote_options_to_constructor changed a builder it did not select")
					continue
				}
				v.Assert(v.DeepEqualNilEmpty(out[i].Options, b.Options) || len(out[i].Options) == len(b.Options), "C17: promote_options_to_constructor changed the number of options")
			}
		}
	}
}
