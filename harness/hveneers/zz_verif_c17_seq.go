package hveneers

import (
	"github.com/grafana/cog/internal/ast"
	"github.com/grafana/cog/internal/veneers/builder"
	"github.com/grafana/cog/internal/veneers/option"
	"github.com/grafana/cog/internal/veneers/rewrite"
	v "github.com/grafana/cog/internal/zzverif"
)

// VerifC17ArityPair: struct_fields_as_arguments produces an option with several arguments;
// rename_arguments with a list of another length must then leave it unchanged (documented:
// "arity mismatch => unchanged") — and must not panic.
func VerifC17ArityPair() {
	p := ast.NewSchema("p", ast.SchemaMeta{})
	p.AddObject(ast.NewObject("p", "Foo", ast.NewStruct(
		ast.NewStructField("opts", ast.NewStruct(ast.NewStructField("n", ast.String()), ast.NewStructField("m", ast.NewScalar(ast.KindBool)))),
		ast.NewStructField("other", ast.String()),
	)))
	schemas := ast.Schemas{p}
	mk := func(rules ...option.RewriteRule) ([]ast.Builder, error) {
		builders := (&ast.BuilderGenerator{}).FromAST(schemas)
		rw := rewrite.NewRewrite([]rewrite.LanguageRules{{Language: rewrite.AllLanguages, OptionRules: rules}}, rewrite.Config{})
		return rw.ApplyTo(schemas, builders, "go")
	}
	sel := option.ByName("p", "Foo", "opts")
	first := option.StructFieldsAsArguments(sel)
	var names []string
	switch v.Choose(4) {
	case 0:
		names = []string{"x"}
	case 1:
		names = []string{"x", "y"}
	case 2:
		names = []string{"x", "y", "z"}
	}
	ref, err0 := mk(first)
	out, err := mk(first, option.RenameArguments(sel, names))
	v.Assert(err0 == nil && err == nil, "C17: a rule sequence made ApplyTo fail")
	if err0 != nil || err != nil || len(ref) != 1 || len(out) != 1 {
		return
	}
	c17WellFormed(schemas, out)
	if len(names) != 2 {
		for i := range ref[0].Options {
			v.Assert(i < len(out[0].Options) && c17SameOption(out[0].Options[i], ref[0].Options[i]), "C17: rename_arguments with a list of another length changed the option")
		}
	} else {
		o := out[0].Options[0]
		v.Assert(len(o.Args) == 2 && o.Args[0].Name == "x" && o.Args[1].Name == "y", "C17: rename_arguments did not rename the arguments in order")
	}
}

// VerifC17RenameThenInitialize: renaming a builder must not change how paths through the
// object it builds are resolved by later rules (initialize).
func VerifC17RenameThenInitialize() {
	schemas := c17Nested()
	builders := (&ast.BuilderGenerator{}).FromAST(schemas)
	var rules []builder.RewriteRule
	switch v.Choose(3) {
	case 1: // rename a builder the path goes through
		rules = append(rules, builder.Rename(builder.ByObjectName("p", v.Str("renamed", "Top", "Mid")), "Renamed"))
	case 2: // and give its old name to another builder
		rules = append(rules, builder.Rename(builder.ByObjectName("p", "Top"), "Renamed"), builder.Rename(builder.ByObjectName("p", "Leaf"), "Top"))
	}
	path := v.Str("path", "spec.time.zone", "name", "spec.time.range.from")
	rules = append(rules, builder.Initialize(builder.ByObjectName("p", "Dest"), []builder.Initialization{{PropertyPath: path, Value: "init"}}))
	rw := rewrite.NewRewrite([]rewrite.LanguageRules{{Language: rewrite.AllLanguages, BuilderRules: rules}}, rewrite.Config{})
	out, err := rw.ApplyTo(schemas, builders, "go")
	v.Assert(err == nil, "C17: initialize fails on an existing path after a builder was renamed")
	if err != nil {
		return
	}
	c17WellFormed(schemas, out)
	for _, b := range out {
		if b.For.Name != "Dest" {
			continue
		}
		found := false
		for _, as := range b.Constructor.Assignments {
			s := ""
			for i, it := range as.Path {
				if i > 0 {
					s += "."
				}
				s += it.Identifier
			}
			if s == path {
				found = true
				c, isStr := as.Value.Constant.(string)
				v.Assert(isStr && c == "init", "C17: initialize assigns another value")
				v.Assert(as.Path[len(as.Path)-1].Type.Kind == ast.KindScalar && as.Path[len(as.Path)-1].Type.Scalar.ScalarKind == ast.KindString, "C17: initialize resolved the path to a field of another type")
			}
		}
		v.Assert(found, "C17: initialize did not add the constructor assignment")
	}
}
