package hveneers

import (
	"github.com/grafana/cog/internal/ast"
	"github.com/grafana/cog/internal/veneers/builder"
	"github.com/grafana/cog/internal/veneers/option"
	"github.com/grafana/cog/internal/veneers/rewrite"
	v "github.com/grafana/cog/internal/zzverif"
)

// VerifC17ArityPair: struct_fields_as_arguments produces an option with several arguments;
// rename_arguments with a list of another length must then leave it unchanged (documented:
// "arity mismatch => unchanged") — and must not panic.
func VerifC17ArityPair() {
	p := ast.NewSchema("p", ast.SchemaMeta{})
	p.AddObject(ast.NewObject("p", "Foo", ast.NewStruct(
		ast.NewStructField("opts", ast.NewStruct(ast.NewStructField("n", ast.String()), ast.NewStructField("m", ast.NewScalar(ast.KindBool)))),
		ast.NewStructField("other", ast.String()),
	)))
	schemas := ast.Schemas{p}
	mk := func(rules ...option.RewriteRule) ([]ast.Builder, error) {
		builders := (&ast.BuilderGenerator{}).FromAST(schemas)
		rw := rewrite.NewRewrite([]rewrite.LanguageRules{{Language: rewrite.AllLanguages, OptionRules: rules}}, rewrite.Config{})
		return rw.ApplyTo(schemas, builders, "go")
	}
	sel := option.ByName("p", "Foo", "opts")
	first := option.StructFieldsAsArguments(sel)
	var names []string
	switch v.Choose(4) {
	case 0:
		names = []string{"x"}
	case 1:
		names = []string{"x", "y"}
	case 2:
		names = []string{"x", "y", "z"}
	}
	ref, err0 := mk(first)
	out, err := mk(first, option.RenameArguments(sel, names))
	v.Assert(err0 == nil && err == nil, "C17: a rule sequence made ApplyTo fail")
	if err0 != nil || err != nil || len(ref) != 1 || len(out) != 1 {
		return
	}
	c17WellFormed(schemas, out)
	if len(names) != 2 {
		for i := range ref[0].Options {
			v.Assert(i < len(out[0].Options) && c17SameOption(out[0].Options[i], ref[0].Options[i]), "C17: rename_arguments with a list of another length changed the option")
		}
	} else {
		o := out[0].Options[0]
		v.Assert(len(o.Args) == 2 && o.Args[0].Name == "x" && o.Args[1].Name == "y", "C17: rename_arguments did not rename the arguments in order")
	}
}

// VerifC17RenameThenInitialize: renaming a builder must not change how paths through the
// object it builds are resolved by later rules (initialize).
func VerifC17RenameThenInitialize() {
	schemas := c17Nested()
	builders := (&ast.BuilderGenerator{}).FromAST(schemas)
	var rules []builder.RewriteRule
	switch v.Choose(3) {
	case 1: // rename a builder the path goes through
		rules = append(rules, builder.Rename(builder.ByObjectName("p", v.Str("renamed", "Top", "Mid")), "Renamed"))
	case 2: // and give its old name to another builder
		rules = append(rules, builder.Rename(builder.ByObjectName("p", "Top"), "Renamed"), builder.Rename(builder.ByObjectName("p", "Leaf"), "Top"))
	}
	path := v.Str("path", "spec.time.zone", "name", "spec.time.range.from")
	rules = append(rules, builder.Initialize(builder.ByObjectName("p", "Dest"), []builder.Initialization{{PropertyPath: path, Value: "init"}}))
	rw := rewrite.NewRewrite([]rewrite.LanguageRules{{Language: rewrite.AllLanguages, BuilderRules: rules}}, rewrite.Config{})
	out, err := rw.ApplyTo(schemas, builders, "go")
	v.Assert(err == nil, "C17: initialize fails on an existing path after a builder was renamed")
	if err != nil {
		return
	}
	c17WellFormed(schemas, out)
	for _, b := range out {
		if b.For.Name != "Dest" {
			continue
		}
		found := false
		for _, as := range b.Constructor.Assignments {
			s := ""
			for i, it := range as.Path {
				if i > 0 {
					s += "."
				}
				s += it.Identifier
			}
			if s == path {
				found = true
				c, isStr := as.Value.Constant.(string)
				v.Assert(isStr && c == "init", "C17: initialize assigns another value")
				v.Assert(as.Path[len(as.Path)-1].Type.Kind == ast.KindScalar && as.Path[len(as.Path)-1].Type.Scalar.ScalarKind == ast.KindString, "C17: initialize resolved the path to a field of another type")
			}
		}
		v.Assert(found, "C17: initialize did not add the constructor assignment")
	}
}

// VerifC17SelectorsAfterBuilderRules: builder rules run before option rules; after a builder was duplicated or
// renamed, an option rule selected by BUILDER name (by_builder) touches the options of exactly the builder of
// that name, and one selected by OBJECT name (by_name) the options of every builder for that object.
func VerifC17SelectorsAfterBuilderRules() {
	p := ast.NewSchema("p", ast.SchemaMeta{})
	p.AddObject(ast.NewObject("p", "Foo", ast.NewStruct(ast.NewStructField("title", ast.String()), ast.NewStructField("uid", ast.String()))))
	// (two fields each: a builder left without options is dismissed by the rewriter)
	p.AddObject(ast.NewObject("p", "Bar", ast.NewStruct(ast.NewStructField("title", ast.String()), ast.NewStructField("note", ast.String()))))
	schemas := ast.Schemas{p}
	builders := (&ast.BuilderGenerator{}).FromAST(schemas)
	var brules []builder.RewriteRule
	names := map[string]string{} // builder name -> object name, after the builder rules
	switch v.Choose(3) {
	case 0:
		brules = append(brules, builder.Duplicate(builder.ByObjectName("p", "Foo"), "Snapshot", nil))
		names = map[string]string{"Foo": "Foo", "Snapshot": "Foo", "Bar": "Bar"}
	case 1:
		brules = append(brules, builder.Rename(builder.ByObjectName("p", "Foo"), "Snapshot"))
		names = map[string]string{"Snapshot": "Foo", "Bar": "Bar"}
	default:
		names = map[string]string{"Foo": "Foo", "Bar": "Bar"}
	}
	target := v.Str("target", "Foo", "Snapshot", "Bar", "Nope")
	opt := v.Str("opt", "title", "uid")
	byBuilder := v.Bool("bybuilder")
	var sel option.Selector
	if byBuilder {
		sel = option.ByBuilder("p", target, opt)
	} else {
		sel = option.ByName("p", target, opt)
	}
	var orule option.RewriteRule
	omit := v.Bool("omit")
	if omit {
		orule = option.Omit(sel)
	} else {
		orule = option.Rename(sel, "heading")
	}
	rw := rewrite.NewRewrite([]rewrite.LanguageRules{{Language: rewrite.AllLanguages, BuilderRules: brules, OptionRules: []option.RewriteRule{orule}}}, rewrite.Config{})
	out, err := rw.ApplyTo(schemas, builders, "go")
	v.Assert(err == nil, "C17: a rule sequence made ApplyTo fail")
	if err != nil {
		return
	}
	v.Assert(len(out) == len(names), "C17: the builder rules did not produce the expected builders")
	for _, b := range out {
		obj, known := names[b.Name]
		v.Assert(known && obj == b.For.Name, "C17: the builder rules did not produce the expected builders")
		selected := (byBuilder && b.Name == target) || (!byBuilder && b.For.Name == target)
		for _, fieldName := range []string{"title", "uid"} {
			if b.For.Name == "Bar" && fieldName == "uid" {
				continue
			}
			hit := selected && fieldName == opt
			has, renamed := false, false
			for _, o := range b.Options {
				if len(o.Assignments) == 1 && len(o.Assignments[0].Path) == 1 && o.Assignments[0].Path[0].Identifier == fieldName {
					has = true
					renamed = o.Name == "heading"
				}
			}
			if hit && omit {
				v.Assert(!has, "C17: a selected option was not removed / renamed")
			} else if hit {
				v.Assert(has && renamed, "C17: a selected option was not removed / renamed")
			} else {
				v.Assert(has && !renamed, "C17: an option no rule selected was removed or renamed")
			}
		}
	}
}

// VerifC17RuleSetsOrder: rules common to all languages are applied — builder rules, then option rules — before
// the rules of the target language (builder rules, then option rules): a language-specific builder rule that
// names an option sees the name a common option rule gave it.
func VerifC17RuleSetsOrder() {
	p := ast.NewSchema("p", ast.SchemaMeta{})
	p.AddObject(ast.NewObject("p", "Foo", ast.NewStruct(ast.NewStructField("title", ast.String()), ast.NewStructField("uid", ast.String()))))
	schemas := ast.Schemas{p}
	builders := (&ast.BuilderGenerator{}).FromAST(schemas)
	common := rewrite.LanguageRules{Language: rewrite.AllLanguages,
		OptionRules: []option.RewriteRule{option.Rename(option.ByName("p", "Foo", "title"), "heading")}}
	var specific rewrite.LanguageRules
	promote := v.Bool("promote")
	if promote {
		specific = rewrite.LanguageRules{Language: "go", BuilderRules: []builder.RewriteRule{builder.PromoteOptionsToConstructor(builder.ByObjectName("p", "Foo"), []string{"heading"})}}
	} else {
		specific = rewrite.LanguageRules{Language: "go", BuilderRules: []builder.RewriteRule{builder.Duplicate(builder.ByObjectName("p", "Foo"), "Lite", []string{"heading"})}}
	}
	rw := rewrite.NewRewrite([]rewrite.LanguageRules{common, specific}, rewrite.Config{})
	out, err := rw.ApplyTo(schemas, builders, "go")
	v.Assert(err == nil, "C17: a rule sequence made ApplyTo fail")
	if err != nil {
		return
	}
	for _, b := range out {
		hasHeading := false
		for _, o := range b.Options {
			hasHeading = hasHeading || o.Name == "heading"
		}
		if promote {
			// (promotion adds the constructor argument; the option itself stays)
			v.Assert(hasHeading && len(b.Constructor.Args) == 1, "C17: a language-specific builder rule does not see the option name a common option rule gave")
		} else if b.Name == "Lite" {
			v.Assert(!hasHeading, "C17: a language-specific builder rule does not see the option name a common option rule gave")
		} else {
			v.Assert(hasHeading, "C17: the common option rule was not applied")
		}
	}
}
