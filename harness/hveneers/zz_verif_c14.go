package hveneers

import (
	"fmt"

	"github.com/grafana/cog/internal/ast"
	"github.com/grafana/cog/internal/languages"
	"github.com/grafana/cog/internal/veneers/builder"
	"github.com/grafana/cog/internal/veneers/option"
	"github.com/grafana/cog/internal/veneers/rewrite"
	v "github.com/grafana/cog/internal/zzverif"
)

// ---------------------------------------------------------------- C14 (IR level): the converter mapping
//
// "The emitted text compiles and rebuilds v" is text + compiler (not encodable). What is
// encodable is the mapping that text is rendered from: every option and constructor argument
// needed to reproduce a value appears exactly once.

func c14Key(as ast.Assignment) string {
	k := ""
	for i, item := range as.Path {
		if i > 0 {
			k += "."
		}
		k += item.Identifier
	}
	if as.Value.Constant != nil {
		k += fmt.Sprintf("=%v", as.Value.Constant)
	}
	if as.Value.Envelope != nil {
		for _, ev := range as.Value.Envelope.Values {
			k += ","
			for i, item := range ev.Path {
				if i > 0 {
					k += "."
				}
				k += item.Identifier
			}
		}
	}
	return k
}

func c14OneHot(a languages.ArgumentMapping) int {
	n := 0
	if a.Direct != nil {
		n++
	}
	if a.Runtime != nil {
		n++
	}
	if a.Builder != nil {
		n++
	}
	if len(a.BuilderDisjunction) != 0 {
		n++
	}
	if a.Array != nil {
		n++
	}
	if a.Map != nil {
		n++
	}
	if a.Disjunction != nil {
		n++
	}
	return n
}

func VerifC14ConverterMapping() {
	schemas := c17Schemas()
	builders := (&ast.BuilderGenerator{}).FromAST(schemas)
	// optionally veneers first (the shapes converters meet in practice): one option rule on every
	// option; or duplicate-then-unfold (constant "shortcut" options followed by an ordinary setter
	// for the same field); or two options promoted to the constructor
	var optRules []option.RewriteRule
	var bldRules []builder.RewriteRule
	switch rk := v.Choose(9); rk {
	case 0:
	case 7:
		optRules = []option.RewriteRule{
			option.Duplicate(option.EveryOption(), "dup"),
			option.UnfoldBoolean(option.ByName("p", "Foo", "a", "tags", "b", "B"), option.BooleanUnfold{OptionTrue: "on", OptionFalse: "off"}),
		}
	case 8:
		bldRules = []builder.RewriteRule{builder.PromoteOptionsToConstructor(builder.ByObjectName("p", "Foo"), []string{v.Str("promote1", "a", "tags"), v.Str("promote2", "b", "B")})}
	default:
		kind := []int{orArrayToAppend, orMapToIndex, orUnfoldBoolean, orStructFieldsAsArguments, orStructFieldsAsOptions, orDuplicate}[rk-1]
		optRules = []option.RewriteRule{c17OptionRule(kind, option.EveryOption())}
	}
	if len(optRules) != 0 || len(bldRules) != 0 {
		rw := rewrite.NewRewrite([]rewrite.LanguageRules{{Language: rewrite.AllLanguages, OptionRules: optRules, BuilderRules: bldRules}}, rewrite.Config{})
		out, err := rw.ApplyTo(schemas, builders, "go")
		if err != nil {
			return
		}
		builders = out
	}
	ctx := languages.Context{Schemas: schemas, Builders: builders}
	nullable := languages.NullableConfig{Kinds: []ast.Kind{ast.KindMap, ast.KindArray}, AnyIsNullable: true}
	for _, b := range builders {
		if b.Name != "Foo" {
			continue
		}
		v.Observe(b)
		conv := languages.NewConverterGenerator(nullable).FromBuilder(ctx, b)
		// reference: walk the options in order; an assignment is "needed" when its target was not produced yet
		covered := map[string]bool{}
		type exp struct {
			name  string
			nargs int
		}
		var want []exp
		for _, o := range b.Options {
			needed := 0
			nargs := 0
			repeat := len(o.Assignments) == 1 && (o.Assignments[0].Method == ast.AppendAssignment || o.Assignments[0].Method == ast.IndexAssignment)
			for _, as := range o.Assignments {
				if covered[c14Key(as)] {
					continue
				}
				needed++
			}
			if needed == 0 {
				continue
			}
			for _, as := range o.Assignments {
				if covered[c14Key(as)] {
					continue
				}
				covered[c14Key(as)] = true
				switch {
				case as.Value.Constant != nil:
				case repeat && as.Method == ast.IndexAssignment:
					nargs += 2
				case as.Value.Envelope != nil && !(repeat && as.Path.Last().Type.IsArray()):
					nargs += len(as.Value.Envelope.Values)
				default:
					nargs++
				}
			}
			want = append(want, exp{o.Name, nargs})
		}
		var got []languages.OptionMapping
		for _, m := range conv.Mappings {
			got = append(got, m.Options...)
		}
		v.Assert(len(got) == len(want), "C14: the options mapped by the converter are not exactly the options needed to reproduce a value")
		if len(got) == len(want) {
			for i := range got {
				v.Assert(got[i].Option.Name == want[i].name, "C14: the converter maps the wrong option, or options out of order")
				v.Assert(len(got[i].Args) == want[i].nargs, "C14: an option mapping does not have exactly one argument per assignment to reproduce")
				for _, a := range got[i].Args {
					v.Assert(c14OneHot(a) == 1, "C14: an argument mapping is empty or ambiguous")
				}
			}
		}
		nctor := 0
		for _, as := range b.Constructor.Assignments {
			if as.Value.Argument != nil {
				nctor++
			}
		}
		v.Assert(len(conv.ConstructorArgs) == nctor, "C14: constructor arguments are not mapped exactly once")
		// the i-th mapped constructor argument must read the field the i-th declared constructor argument is assigned to
		if len(conv.ConstructorArgs) == nctor && nctor == len(b.Constructor.Args) {
			for i, arg := range b.Constructor.Args {
				for _, as := range b.Constructor.Assignments {
					if as.Value.Argument != nil && as.Value.Argument.Name == arg.Name {
						got := conv.ConstructorArgs[i].ValuePath
						v.Assert(len(got) == len(as.Path)+1 && v.DeepEqualNilEmpty(got[1:], as.Path), "C14: constructor arguments are mapped in a different order than the constructor declares them")
					}
				}
			}
		}
		v.Assert(conv.Package == b.Package && conv.BuilderName == b.Name && conv.Input.TypeRef == b.For.SelfRef, "C14: the converter targets the wrong builder or object")
	}
}
