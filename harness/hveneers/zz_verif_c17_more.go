package hveneers

import (
	"github.com/grafana/cog/internal/ast"
	"github.com/grafana/cog/internal/veneers/builder"
	"github.com/grafana/cog/internal/veneers/option"
	"github.com/grafana/cog/internal/veneers/rewrite"
	v "github.com/grafana/cog/internal/zzverif"
)

// ---------------------------------------------------------------- merge_into

// c17Nested: Dest.spec -> Top.time -> Mid.range -> Leaf{from, step, kind="r"} (+ Dest.name)
func c17Nested() ast.Schemas {
	p := ast.NewSchema("p", ast.SchemaMeta{})
	step := ast.NewScalar(ast.KindInt64)
	step.Scalar.Constraints = []ast.TypeConstraint{{Op: ast.GreaterThanEqualOp, Args: []any{int64(1)}}}
	leafFields := []ast.StructField{
		ast.NewStructField("from", ast.String(), ast.Required()),
		ast.NewStructField("step", step),
		ast.NewStructField("kind", ast.NewScalar(ast.KindString, ast.Value("r")), ast.Required()),
	}
	if v.Bool("thirdoption") {
		leafFields = append(leafFields, ast.NewStructField("to", ast.String()))
	}
	p.AddObject(ast.NewObject("p", "Leaf", ast.NewStruct(leafFields...)))
	p.AddObject(ast.NewObject("p", "Mid", ast.NewStruct(ast.NewStructField("range", ast.NewRef("p", "Leaf"), ast.Required()), ast.NewStructField("zone", ast.String()))))
	p.AddObject(ast.NewObject("p", "Top", ast.NewStruct(ast.NewStructField("time", ast.NewRef("p", "Mid"), ast.Required()))))
	p.AddObject(ast.NewObject("p", "Dest", ast.NewStruct(ast.NewStructField("spec", ast.NewRef("p", "Top"), ast.Required()), ast.NewStructField("name", ast.String()))))
	return ast.Schemas{p}
}

// VerifC17MergeInto: every option merged under a path assigns `under_path ++ its own path`,
// keeps its argument, and the destination's own options are untouched.
func VerifC17MergeInto() {
	schemas := c17Nested()
	builders := (&ast.BuilderGenerator{}).FromAST(schemas)
	before := v.Clone(builders)
	// under_path of 1, 2 or 3 segments, each leading to a struct whose builder is merged in
	var under, source string
	var root ast.Path
	spec := ast.PathItem{Identifier: "spec", Type: ast.NewRef("p", "Top")}
	spec.Type.Nullable = false
	switch v.Choose(3) {
	case 0:
		under, source = "spec", "Top"
		root = ast.Path{spec}
	case 1:
		under, source = "spec.time", "Mid"
		root = ast.Path{spec, {Identifier: "time", Type: ast.NewRef("p", "Mid")}}
	default:
		under, source = "spec.time.range", "Leaf"
		root = ast.Path{spec, {Identifier: "time", Type: ast.NewRef("p", "Mid")}, {Identifier: "range", Type: ast.NewRef("p", "Leaf")}}
	}
	var exclude []string
	if v.Bool("exclude") {
		exclude = []string{"step"}
	}
	rule := builder.MergeInto(builder.ByObjectName("p", "Dest"), source, under, exclude, nil)
	rw := rewrite.NewRewrite([]rewrite.LanguageRules{{Language: rewrite.AllLanguages, BuilderRules: []builder.RewriteRule{rule}}}, rewrite.Config{})
	out, err := rw.ApplyTo(schemas, builders, "go")
	v.Assert(err == nil, "C17: merge_into made ApplyTo fail")
	if err != nil {
		return
	}
	c17WellFormed(schemas, out)
	var src, dstBefore, dst *ast.Builder
	for i := range before {
		if before[i].Name == source {
			src = &before[i]
		}
		if before[i].Name == "Dest" {
			dstBefore = &before[i]
		}
	}
	for i := range out {
		if out[i].Name == "Dest" {
			dst = &out[i]
		}
	}
	if src == nil || dstBefore == nil || dst == nil {
		v.Assert(false, "C17: merge_into lost the destination builder")
		return
	}
	// the destination's own options are untouched and come first
	for i, o := range dstBefore.Options {
		v.Assert(i < len(dst.Options) && c17SameOption(dst.Options[i], o), "C17: merge_into changed an option of the destination builder")
	}
	// then one option per non-excluded source option, each assigning under_path ++ its own path
	k := len(dstBefore.Options)
	for _, so := range src.Options {
		if len(exclude) != 0 && so.Name == exclude[0] {
			continue
		}
		if k >= len(dst.Options) {
			v.Assert(false, "C17: merge_into dropped a source option")
			return
		}
		mo := dst.Options[k]
		k++
		v.Assert(mo.Name == so.Name && v.DeepEqualNilEmpty(mo.Args, so.Args) && len(mo.Assignments) == len(so.Assignments), "C17: a merged option lost its name or arguments")
		if len(mo.Assignments) == len(so.Assignments) {
			for j, as := range so.Assignments {
				want := append(append(ast.Path{}, root...), as.Path...)
				got := mo.Assignments[j].Path
				same := len(got) == len(want)
				if same {
					for x := range want {
						same = same && got[x].Identifier == want[x].Identifier
					}
				}
				v.Assert(same, "C17: a merged option does not assign under_path followed by its own path")
				if same {
					v.Assert(c17SameType(got[len(got)-1].Type, as.Path[len(as.Path)-1].Type), "C17: a merged option's target has the type of another field")
				}
				v.Assert(v.DeepEqualNilEmpty(mo.Assignments[j].Value, as.Value), "C17: a merged option assigns a different value")
			}
		}
	}
	v.Assert(k == len(dst.Options), "C17: merge_into added options the source does not have")
	// source constants are kept under the path
	nconst := 0
	for _, as := range src.Constructor.Assignments {
		if as.Value.Constant != nil {
			nconst++
		}
	}
	v.Assert(len(dst.Constructor.Assignments) == len(dstBefore.Constructor.Assignments)+nconst, "C17: merge_into did not keep the source builder's constants")
}

// ---------------------------------------------------------------- rule sequences on one option

// VerifC17OptionRulePair: array_to_append (or map_to_index) followed by disjunction_as_options,
// and struct_fields_as_options followed by rename_arguments / unfold_boolean: the produced
// options still assign the same target, with the same method.
func VerifC17OptionRulePair() {
	p := ast.NewSchema("p", ast.SchemaMeta{})
	union := ast.NewDisjunction(ast.Types{ast.String(), ast.NewScalar(ast.KindBool)})
	var ft ast.Type
	first := 0
	switch v.Choose(2) {
	case 0:
		ft = ast.NewArray(union)
		first = orArrayToAppend
	default:
		ft = ast.NewMap(ast.String(), union)
		first = orMapToIndex
	}
	p.AddObject(ast.NewObject("p", "Foo", ast.NewStruct(ast.NewStructField("items", ft), ast.NewStructField("other", ast.String()))))
	schemas := ast.Schemas{p}
	builders := (&ast.BuilderGenerator{}).FromAST(schemas)
	sel := option.ByName("p", "Foo", "items", "item")
	rules := []option.RewriteRule{c17OptionRule(first, sel)}
	// the second rule looks at the (possibly shifted) argument holding the union
	argIndex := 0
	if first == orMapToIndex {
		argIndex = 1
	}
	rules = append(rules, option.DisjunctionAsOptions(option.ByName("p", "Foo", "items", "item"), argIndex))
	rw := rewrite.NewRewrite([]rewrite.LanguageRules{{Language: rewrite.AllLanguages, OptionRules: rules}}, rewrite.Config{})
	out, err := rw.ApplyTo(schemas, builders, "go")
	v.Assert(err == nil, "C17: a rule sequence made ApplyTo fail")
	if err != nil || len(out) != 1 {
		return
	}
	c17WellFormed(schemas, out)
	wantMethod := ast.AppendAssignment
	if first == orMapToIndex {
		wantMethod = ast.IndexAssignment
	}
	nbranches := 0
	for _, o := range out[0].Options {
		if o.Name == "other" {
			continue
		}
		nbranches++
		v.Assert(len(o.Assignments) == 1, "C17: a branch option has several assignments")
		if len(o.Assignments) == 1 {
			as := o.Assignments[0]
			v.Assert(len(as.Path) >= 1 && as.Path[0].Identifier == "items", "C17: after the sequence a branch option no longer assigns the same target")
			v.Assert(as.Method == wantMethod, "C17: after the sequence a branch option no longer appends to / indexes the same target")
		}
	}
	v.Assert(nbranches == 2, "C17: the sequence did not produce one option per branch")
}
