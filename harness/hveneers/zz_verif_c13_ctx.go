package hveneers

import (
	"github.com/grafana/cog/internal/ast"
	"github.com/grafana/cog/internal/languages"
	v "github.com/grafana/cog/internal/zzverif"
)

// The decisions the Go templates take for Equals / Validate / builders ("does this field resolve to a
// struct, to a map of scalars, to a composable slot ...") are computed by languages.Context over the IR.
// VerifC13ContextHelpers: on two packages that hold SAME-NAMED objects of different kinds and alias chains
// that cross packages, every helper agrees with a reference resolver that follows (package, name) pairs.

// c13Resolve: the reference resolver (bounded: alias chains of at most 4 hops).
func c13Resolve(schemas ast.Schemas, t ast.Type) (ast.Type, bool) {
	for hop := 0; hop < 5; hop++ {
		if t.Kind != ast.KindRef {
			return t, true
		}
		found := false
		for _, s := range schemas {
			if found || s.Package != t.Ref.ReferredPkg {
				continue
			}
			want := t.Ref.ReferredType
			s.Objects.Iterate(func(name string, o ast.Object) {
				if !found && name == want {
					t = o.Type
					found = true
				}
			})
		}
		if !found {
			return t, false
		}
	}
	return t, false
}

func VerifC13ContextHelpers() {
	kinds := func(pkg string) ast.Type {
		switch v.Choose(7) {
		case 0:
			return ast.NewStruct(ast.NewStructField("n", ast.String()))
		case 1:
			return ast.NewEnum([]ast.EnumValue{{Type: ast.String(), Name: "A", Value: "a"}})
		case 2:
			return ast.String()
		case 3:
			return ast.NewMap(ast.String(), ast.String())
		case 4:
			return ast.NewArray(ast.NewScalar(ast.KindInt64))
		case 5:
			return ast.NewComposableSlot(ast.SchemaVariantDataQuery)
		default: // an alias, possibly into the other package, possibly of a same-named object
			return ast.NewRef(v.Str("aliaspkg", "p", "q"), v.Str("aliasname", "Kind", "Other"))
		}
	}
	p := ast.NewSchema("p", ast.SchemaMeta{})
	q := ast.NewSchema("q", ast.SchemaMeta{})
	p.AddObject(ast.NewObject("p", "Kind", kinds("p")))
	p.AddObject(ast.NewObject("p", "Other", kinds("p")))
	q.AddObject(ast.NewObject("q", "Kind", kinds("q"))) // same name as p.Kind, its own kind
	q.AddObject(ast.NewObject("q", "Other", ast.NewStruct(ast.NewStructField("m", ast.NewScalar(ast.KindBool)))))
	schemas := ast.Schemas{p, q}
	ctx := languages.Context{Schemas: schemas}
	// two lookups in a row (a cache keyed by less than (package, name) shows on the second)
	first := ast.NewRef(v.Str("pkg1", "p", "q"), v.Str("name1", "Kind", "Other"))
	second := ast.NewRef(v.Str("pkg2", "p", "q"), v.Str("name2", "Kind", "Other"))
	for _, ref := range []ast.Type{first, second} {
		want, ok := c13Resolve(schemas, ref)
		if !ok {
			continue // a cycle of aliases: C04's subject
		}
		obj, found := ctx.LocateObject(ref.Ref.ReferredPkg, ref.Ref.ReferredType)
		v.Assert(found && obj.SelfRef.ReferredPkg == ref.Ref.ReferredPkg && obj.Name == ref.Ref.ReferredType, "C13: Context.LocateObject returns another object than the one of that package and name")
		v.Assert(ctx.ResolveToStruct(ref) == (want.Kind == ast.KindStruct), "C13: Context.ResolveToStruct disagrees with following the reference chain")
		v.Assert(v.DeepEqualNilEmpty(ctx.ResolveRefs(ref), want), "C13: Context.ResolveRefs does not end on the object the reference chain ends on")
		v.Assert(ctx.IsMapOfKinds(ref, ast.KindScalar) == (want.Kind == ast.KindMap), "C13: Context.IsMapOfKinds disagrees with following the reference chain")
		v.Assert(ctx.IsArrayOfKinds(ref, ast.KindScalar) == (want.Kind == ast.KindArray), "C13: Context.IsArrayOfKinds disagrees with following the reference chain")
		_, slot := ctx.ResolveToComposableSlot(ref)
		v.Assert(slot == (want.Kind == ast.KindComposableSlot), "C13: Context.ResolveToComposableSlot disagrees with following the reference chain")
	}
}

// VerifC07SchemasForVariant (C07): the list of composable packages of a variant handed to templates does not
// depend on the order the inputs were given in.
func VerifC07SchemasForVariant() {
	mk := func(pkg string) *ast.Schema {
		return ast.NewSchema(pkg, ast.SchemaMeta{Kind: ast.SchemaKindComposable, Variant: ast.SchemaVariantPanel, Identifier: pkg})
	}
	all := []*ast.Schema{mk("gauge"), mk("stat"), mk("text")}
	perm := [][]int{{0, 1, 2}, {0, 2, 1}, {1, 0, 2}, {1, 2, 0}, {2, 0, 1}, {2, 1, 0}}[v.Choose(6)]
	ctx := languages.Context{Schemas: ast.Schemas{all[perm[0]], all[perm[1]], all[perm[2]]}}
	got := ctx.PackagesForVariant(string(ast.SchemaVariantPanel))
	v.Assert(len(got) == 3 && got[0] == "gauge" && got[1] == "stat" && got[2] == "text", "C07: the packages of a variant are listed in input order")
}
