package hveneers

import (
	"github.com/grafana/cog/internal/ast"
	"github.com/grafana/cog/internal/jennies/golang"
	"github.com/grafana/cog/internal/jennies/python"
	"github.com/grafana/cog/internal/languages"
	"github.com/grafana/cog/internal/veneers/builder"
	"github.com/grafana/cog/internal/veneers/option"
	"github.com/grafana/cog/internal/veneers/rewrite"
	v "github.com/grafana/cog/internal/zzverif"
)

// ---------------------------------------------------------------- C09 (IR level): nil checks
//
// "Arguments that satisfy the schema never fail": an option that writes below a nullable
// parent must first make sure the parent exists. The guards are computed at IR level by
// languages.GenerateBuilderNilChecks (the templates only print them): within every
// constructor and every option, each nullable proper prefix of an assignment path must be
// guarded by a nil check carried by that assignment or an earlier one OF THE SAME SCOPE.

func c09PathString(p ast.Path) string {
	s := ""
	for i, it := range p {
		if i > 0 {
			s += "."
		}
		s += it.Identifier
	}
	return s
}

func c09CheckScope(cfg languages.NullableConfig, assignments []ast.Assignment) {
	guarded := map[string]bool{}
	for _, as := range assignments {
		for _, nc := range as.NilChecks {
			guarded[c09PathString(nc.Path)] = true
		}
		for i := 0; i+1 < len(as.Path); i++ {
			if cfg.TypeIsNullable(as.Path[i].Type) {
				v.Assert(guarded[c09PathString(as.Path[:i+1])], "C09: an assignment below a nullable parent is not guarded by a nil check in its own option/constructor")
			}
		}
	}
}

func VerifC09NilChecks() {
	// Foo{ opts?: struct{a string; b bool; c: struct{d string}} , name string }, optionally through a reference
	p := ast.NewSchema("p", ast.SchemaMeta{})
	inner := ast.NewStruct(
		ast.NewStructField("a", ast.String()),
		ast.NewStructField("b", ast.NewScalar(ast.KindBool)),
		ast.NewStructField("c", ast.NewStruct(ast.NewStructField("d", ast.String()))),
	)
	var optsType ast.Type
	if v.Bool("byref") {
		p.AddObject(ast.NewObject("p", "Opts", inner))
		optsType = ast.NewRef("p", "Opts")
	} else {
		optsType = inner
	}
	optsType.Nullable = v.Bool("optsnullable")
	p.AddObject(ast.NewObject("p", "Foo", ast.NewStruct(ast.NewStructField("opts", optsType), ast.NewStructField("name", ast.String()))))
	schemas := ast.Schemas{p}
	builders := (&ast.BuilderGenerator{}).FromAST(schemas)
	// veneers that make several options (or arguments) write under the same parent
	var rules []option.RewriteRule
	switch v.Choose(3) {
	case 0:
		rules = []option.RewriteRule{option.StructFieldsAsOptions(option.ByName("p", "Foo", "opts"))}
	case 1:
		rules = []option.RewriteRule{option.StructFieldsAsArguments(option.ByName("p", "Foo", "opts"))}
	default:
		rules = []option.RewriteRule{option.StructFieldsAsOptions(option.ByName("p", "Foo", "opts")), option.StructFieldsAsOptions(option.ByName("p", "Foo", "c"))}
	}
	rw := rewrite.NewRewrite([]rewrite.LanguageRules{{Language: rewrite.AllLanguages, OptionRules: rules}}, rewrite.Config{})
	out, err := rw.ApplyTo(schemas, builders, "go")
	if err != nil {
		return
	}
	var lang languages.Language = &golang.Language{}
	cfg := (&golang.Language{}).NullableKinds()
	if v.Bool("python") {
		lang = &python.Language{}
		cfg = (&python.Language{}).NullableKinds()
	}
	ctx, err := languages.GenerateBuilderNilChecks(lang, languages.Context{Schemas: schemas, Builders: out})
	v.Assert(err == nil, "C09: nil-check generation failed")
	if err != nil {
		return
	}
	for _, b := range ctx.Builders {
		c09CheckScope(cfg, b.Constructor.Assignments)
		for _, o := range b.Options {
			c09CheckScope(cfg, o.Assignments)
		}
	}
}

// VerifC09NilChecksAcrossBuilders: the guards are scoped per constructor and per option of EACH builder. Two
// builders write below a nullable parent of the same name: Foo through options (struct_fields_as_options,
// declared before or after its other option) and Bar through a constant its constructor assigns (the
// `initialize` builder rule on a nested property). Whatever the order of the two objects, every scope must
// carry its own nil check: a guard remembered from the previous builder's last option initialises nothing here.
func VerifC09NilChecksAcrossBuilders() {
	p := ast.NewSchema("p", ast.SchemaMeta{})
	mkOpts := func() ast.Type {
		t := ast.NewStruct(ast.NewStructField("a", ast.String()), ast.NewStructField("b", ast.NewScalar(ast.KindBool)))
		t.Nullable = true
		return t
	}
	var fooFields []ast.StructField
	if v.Bool("namefirst") {
		fooFields = []ast.StructField{ast.NewStructField("name", ast.String()), ast.NewStructField("opts", mkOpts())}
	} else {
		fooFields = []ast.StructField{ast.NewStructField("opts", mkOpts()), ast.NewStructField("name", ast.String())}
	}
	foo := ast.NewObject("p", "Foo", ast.NewStruct(fooFields...))
	bar := ast.NewObject("p", "Bar", ast.NewStruct(ast.NewStructField("opts", mkOpts()), ast.NewStructField("title", ast.String())))
	if v.Bool("foofirst") {
		p.AddObject(foo)
		p.AddObject(bar)
	} else {
		p.AddObject(bar)
		p.AddObject(foo)
	}
	schemas := ast.Schemas{p}
	builders := (&ast.BuilderGenerator{}).FromAST(schemas)
	rw := rewrite.NewRewrite([]rewrite.LanguageRules{{
		Language:     rewrite.AllLanguages,
		BuilderRules: []builder.RewriteRule{builder.Initialize(builder.ByName("p", "Bar"), []builder.Initialization{{PropertyPath: "opts.a", Value: "fixed"}})},
		OptionRules:  []option.RewriteRule{option.StructFieldsAsOptions(option.ByName("p", "Foo", "opts"))},
	}}, rewrite.Config{})
	out, err := rw.ApplyTo(schemas, builders, "go")
	v.Assert(err == nil, "C09: initialize on a nested property / struct_fields_as_options failed")
	if err != nil {
		return
	}
	var lang languages.Language = &golang.Language{}
	cfg := (&golang.Language{}).NullableKinds()
	if v.Bool("python") {
		lang = &python.Language{}
		cfg = (&python.Language{}).NullableKinds()
	}
	ctx, err := languages.GenerateBuilderNilChecks(lang, languages.Context{Schemas: schemas, Builders: out})
	v.Assert(err == nil, "C09: nil-check generation failed")
	if err != nil {
		return
	}
	constants := 0
	for _, b := range ctx.Builders {
		c09CheckScope(cfg, b.Constructor.Assignments)
		for _, as := range b.Constructor.Assignments {
			if len(as.Path) == 2 {
				constants++
			}
		}
		for _, o := range b.Options {
			c09CheckScope(cfg, o.Assignments)
		}
	}
	v.Assert(constants == 1, "C09: the constructor of Bar does not assign the nested constant")
}
