// Package hast hosts harnesses that only need the exported API of internal/ast.
package hast

import (
	v "github.com/grafana/cog/internal/zzverif"
)

// c18Depth: number of pointer/slice/map indirections populated by SymValue.
func c18Depth() int {
	if v.Tier() > 0 {
		return 6
	}
	return 4
}
