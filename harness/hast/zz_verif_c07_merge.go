package hast

import (
	"github.com/grafana/cog/internal/ast"
	v "github.com/grafana/cog/internal/zzverif"
)

// ---------------------------------------------------------------- C07: merge is union-or-error

func c07Leaf() ast.Type {
	switch v.Choose(3) {
	case 0:
		t := ast.NewScalar(ast.ScalarKind(v.Str("scalar", "string", "int64")))
		t.Nullable = v.Bool("nullable")
		return t
	case 1:
		return ast.NewRef("p", v.Str("ref", "Foo", "Bar"))
	default:
		return ast.NewStruct(ast.NewStructField(v.Str("field", "a", "b"), ast.String()))
	}
}

func c07Schema(pkg string, maxObjects int) *ast.Schema {
	s := ast.NewSchema(pkg, ast.SchemaMeta{})
	n := 1 + v.Choose(maxObjects)
	var names []string
	for i := 0; i < n; i++ {
		name := v.Str("name", "Foo", "Bar")
		for _, p := range names {
			v.Assume(p != name)
		}
		names = append(names, name)
		o := ast.NewObject(pkg, name, c07Leaf())
		if v.Bool("comment") {
			o.Comments = []string{"doc"}
		}
		s.AddObject(o)
	}
	return s
}

type c07Obj struct {
	pkg string
	obj ast.Object
}

func c07All(schemas ast.Schemas) []c07Obj {
	var out []c07Obj
	for _, s := range schemas {
		s.Objects.Iterate(func(_ string, o ast.Object) { out = append(out, c07Obj{s.Package, o}) })
	}
	return out
}

// VerifC07Merge: inputs contributing to the same package merge into the union of their
// definitions or the run fails with a conflict error; nothing is silently dropped or overwritten.
func VerifC07Merge() {
	n := 2
	if v.Tier() > 0 {
		n = 3
	}
	var in ast.Schemas
	for i := 0; i < n; i++ {
		objs := 2
		if i == 2 {
			objs = 1 // thorough: the third schema holds one object (three full schemas do not complete)
		}
		in = append(in, c07Schema(v.Str("pkg", "p", "q"), objs))
	}
	v.Observe(in)
	ins := c07All(in)
	// does a pair of same-named, unequal definitions exist in one package?
	conflict := false
	for i := range ins {
		for j := i + 1; j < len(ins); j++ {
			same := v.And(ins[i].pkg == ins[j].pkg, ins[i].obj.Name == ins[j].obj.Name)
			conflict = v.Or(conflict, v.And(same, !v.DeepEqualNilEmpty(ins[i].obj, ins[j].obj)))
		}
	}
	snapshot := v.Clone(in)
	out, err := in.Consolidate()
	if err != nil {
		v.Assert(conflict, "C07: merge fails although no two inputs define the same object differently")
		return
	}
	v.Assert(!conflict, "C07: conflicting definitions of one object merged without an error")
	outs := c07All(out)
	// every input definition is present, unchanged, in the merged schema of its package
	for _, io := range c07All(snapshot) {
		found := false
		for _, oo := range outs {
			found = v.Or(found, v.And(v.And(io.pkg == oo.pkg, io.obj.Name == oo.obj.Name), v.DeepEqualNilEmpty(io.obj, oo.obj)))
		}
		v.Assert(found, "C07: a definition of an input is missing from (or altered in) the merged schemas")
	}
	// nothing is invented and each package appears once
	for i, oo := range outs {
		found := false
		for _, io := range ins {
			found = v.Or(found, v.And(io.pkg == oo.pkg, io.obj.Name == oo.obj.Name))
		}
		v.Assert(found, "C07: the merged schemas hold a definition no input has")
		for j := i + 1; j < len(outs); j++ {
			v.Assert(!v.And(outs[j].pkg == oo.pkg, outs[j].obj.Name == oo.obj.Name), "C07: one object appears twice in the merged schemas")
		}
	}
	for i := range out {
		for j := i + 1; j < len(out); j++ {
			v.Assert(out[i].Package != out[j].Package, "C07: one package appears twice in the merged schemas")
		}
	}
}

// VerifC07InputOrder: reordering inputs that define different packages yields the same merged schemas (as a set).
func VerifC07InputOrder() {
	a := c07Schema("p", 2)
	b := c07Schema("q", 2)
	a2, b2 := v.Clone(a), v.Clone(b)
	out1, err1 := ast.Schemas{a, b}.Consolidate()
	out2, err2 := ast.Schemas{b2, a2}.Consolidate()
	v.Assert((err1 == nil) == (err2 == nil), "C07: merging succeeds for one input order and fails for the other")
	if err1 != nil || err2 != nil {
		return
	}
	v.Assert(len(out1) == len(out2), "C07: input order changes the number of merged schemas")
	for _, s1 := range out1 {
		s2, found := out2.Locate(s1.Package)
		v.Assert(found, "C07: input order changes the set of merged packages")
		if found {
			v.Assert(v.DeepEqualNilEmpty(s1, s2), "C07: input order changes a merged schema")
		}
	}
}
