package hast

import (
	"github.com/grafana/cog/internal/ast"
	v "github.com/grafana/cog/internal/zzverif"
	"github.com/grafana/cog/internal/zzverif/symir"
)

// ---------------------------------------------------------------- C16: builders are derived completely and type-correctly

// c16Field builds one struct field of a kind chosen by the shape grammar.
func c16Field(g *symir.Gen, name string) ast.StructField {
	nk := 6
	if v.Tier() == 0 {
		nk = 4 // quick: scalar, constant, reference, constant reference
	}
	return c16FieldOf(g, name, nk)
}

// c16FieldOf: a field over the first nk kinds of the shape grammar.
func c16FieldOf(g *symir.Gen, name string, nk int) ast.StructField {
	var t ast.Type
	switch v.Choose(nk) {
	case 0: // plain scalar, possibly with default and constraints
		t = g.Scalar()
	case 1: // the schema fixes the value: concrete scalar
		t = g.ConstScalar()
	case 2: // reference (to a struct, an alias, or an object holding a constant)
		t = g.Ref()
	case 3:
		t = ast.NewConstantReferenceType("p", g.Name(), "x")
	case 4:
		t = ast.NewArray(ast.String())
		t.Nullable = v.Bool("nullable")
	default:
		t = ast.NewMap(ast.String(), g.Ref())
	}
	f := ast.NewStructField(name, t)
	f.Required = v.Bool("required")
	if v.Bool("comments") {
		f.Comments = []string{"doc"}
	}
	return f
}

// c16Schemas: p{ S: struct of 1-2 fields, A: alias (ref), K: constant scalar or another kind }, q{ T: struct | ref to p }.
func c16Schemas() (ast.Schemas, *symir.Gen) {
	g := symir.Default()
	g.Pkgs = []string{"p", "q"}
	g.RefPkgs = []string{"p", "q"}
	g.Names = []string{"S", "A", "K"}
	g.Scalars = []string{"string", "int64"}
	// string and numeric scalars: their constraints differ in kind (length vs bounds)
	g.Nullable = true
	g.Defaults = true
	g.Constraints = true
	p := ast.NewSchema("p", ast.SchemaMeta{})
	nf := 1 + v.Choose(2)
	var fields []ast.StructField
	for i := 0; i < nf; i++ {
		// field names may differ only in letter case (id / ID are two fields)
		name := v.Str("fieldname", "f", "F", "g")
		for _, prev := range fields {
			v.Assume(prev.Name != name)
		}
		if i > 0 && v.Tier() == 0 {
			// quick: the second field is a plain optional string (enough to exercise "covered exactly once")
			fields = append(fields, ast.NewStructField(name, ast.String()))
			continue
		}
		if i > 0 {
			// thorough: the second field is a plain scalar or a constant (more kinds there multiply the 6 kinds of the first field and do not complete in 25 minutes)
			lean := *g
			lean.Defaults, lean.Constraints = false, false
			fields = append(fields, c16FieldOf(&lean, name, 2))
			continue
		}
		fields = append(fields, c16Field(g, name))
	}
	p.AddObject(ast.NewObject("p", "S", ast.NewStruct(fields...)))
	// A: an alias — a reference to S, to K, to itself's package q.T, or a chain A -> K
	p.AddObject(ast.NewObject("p", "A", g.Ref()))
	switch v.Choose(4) {
	case 0:
		p.AddObject(ast.NewObject("p", "K", g.ConstScalar()))
	case 1:
		p.AddObject(ast.NewObject("p", "K", ast.String()))
	case 2:
		p.AddObject(ast.NewObject("p", "K", ast.NewRef("p", "S")))
	default:
		p.AddObject(ast.NewObject("p", "K", ast.NewArray(ast.NewRef("p", "S"))))
	}
	q := ast.NewSchema("q", ast.SchemaMeta{})
	if v.Choose(2) == 0 {
		q.AddObject(ast.NewObject("q", "S", ast.NewStruct(ast.NewStructField("h", ast.NewRef("p", "K"), ast.Required()))))
	} else {
		q.AddObject(ast.NewObject("q", "S", ast.NewRef("p", g.Name())))
	}
	q.AddObject(ast.NewObject("q", "A", ast.NewScalar(ast.KindBool)))
	q.AddObject(ast.NewObject("q", "K", ast.NewScalar(ast.KindInt64, ast.Value(int64(3)))))
	return ast.Schemas{p, q}, g
}

// c16Resolve follows references with a visited set (reference derivation; no code under test).
func c16Resolve(schemas ast.Schemas, t ast.Type, fuel int) (ast.Type, bool) {
	for t.Kind == ast.KindRef {
		if fuel == 0 {
			return ast.Type{}, false // cycle
		}
		fuel--
		found := false
		for _, s := range schemas {
			if s.Package != t.Ref.ReferredPkg {
				continue
			}
			name := t.Ref.ReferredType
			s.Objects.Iterate(func(n string, o ast.Object) {
				if !found && n == name {
					t = o.Type
					found = true
				}
			})
			break
		}
		if !found {
			return ast.Type{}, false
		}
	}
	return t, true
}

func c16Acyclic(schemas ast.Schemas) bool {
	ok := true
	for _, s := range schemas {
		s.Objects.Iterate(func(_ string, o ast.Object) {
			if _, r := c16Resolve(schemas, o.Type, 8); !r {
				ok = false
			}
			if o.Type.Kind == ast.KindStruct {
				for _, f := range o.Type.Struct.Fields {
					if _, r := c16Resolve(schemas, f.Type, 8); !r {
						ok = false
					}
				}
			}
		})
	}
	return ok
}

// c16Expected is the reference derivation, written from the property statement.
func c16Expected(schemas ast.Schemas) []ast.Builder {
	var out []ast.Builder
	for _, s := range schemas {
		s.Objects.Iterate(func(_ string, o ast.Object) {
			rt, ok := c16Resolve(schemas, o.Type, 8)
			if !ok || rt.Kind != ast.KindStruct {
				return
			}
			b := ast.Builder{Package: s.Package, For: o, Name: o.Name}
			for _, f := range rt.Struct.Fields {
				switch {
				case f.Type.Kind == ast.KindScalar && f.Type.Scalar.Value != nil:
					// the schema fixes the value: constructor constant
					b.Constructor.Assignments = append(b.Constructor.Assignments, ast.Assignment{
						Path: ast.Path{{Identifier: f.Name, Type: f.Type}}, Value: ast.AssignmentValue{Constant: f.Type.Scalar.Value}, Method: ast.DirectAssignment})
					continue
				case f.Type.Kind == ast.KindConstantRef:
					continue // the type's own constructor fixes it
				case f.Type.Kind == ast.KindRef && f.Required && !f.Type.Nullable:
					if ft, ok := c16Resolve(schemas, f.Type, 8); ok && ft.Kind == ast.KindScalar && ft.Scalar.Value != nil {
						b.Constructor.Assignments = append(b.Constructor.Assignments, ast.Assignment{
							Path: ast.Path{{Identifier: f.Name, Type: f.Type}}, Value: ast.AssignmentValue{Constant: ft.Scalar.Value}, Method: ast.DirectAssignment})
						continue
					}
				}
				arg := ast.Argument{Name: f.Name, Type: f.Type}
				as := ast.Assignment{Path: ast.Path{{Identifier: f.Name, Type: f.Type}}, Value: ast.AssignmentValue{Argument: &arg}, Method: ast.DirectAssignment}
				if f.Type.Kind == ast.KindScalar {
					for _, c := range f.Type.Scalar.Constraints {
						as.Constraints = append(as.Constraints, ast.AssignmentConstraint{Argument: arg, Op: c.Op, Parameter: c.Args[0]})
					}
				}
				opt := ast.Option{Name: f.Name, Comments: f.Comments, Args: []ast.Argument{arg}, Assignments: []ast.Assignment{as}}
				if f.Type.Default != nil {
					opt.Default = &ast.OptionDefault{ArgsValues: []any{f.Type.Default}}
				}
				b.Options = append(b.Options, opt)
			}
			out = append(out, b)
		})
	}
	return out
}

// VerifC16FromAST: exactly the objects that are structs — directly or through a chain of
// references — get a builder, and in it every field is covered exactly once.
func VerifC16FromAST() {
	in, _ := c16Schemas()
	v.Assume(symir.AllResolve(in))
	v.Assume(c16Acyclic(in))
	v.Observe(in)
	want := c16Expected(v.Clone(in))
	got := (&ast.BuilderGenerator{}).FromAST(in)
	v.Assert(len(got) == len(want), "C16: the set of objects that get a builder is not exactly the objects that resolve to a struct")
	if len(got) != len(want) {
		return
	}
	for i := range got {
		v.Assert(v.And(got[i].Package == want[i].Package, got[i].Name == want[i].Name), "C16: a builder is derived for the wrong object")
		v.Assert(v.DeepEqualNilEmpty(got[i].For, want[i].For), "C16: Builder.For is not the object the builder was derived from")
		v.Assert(v.DeepEqualNilEmpty(got[i].Constructor, want[i].Constructor), "C16: constructor constants differ from the fields whose value the schema fixes")
		v.Assert(len(got[i].Options) == len(want[i].Options), "C16: a field is covered by no option or by more than one")
		if len(got[i].Options) == len(want[i].Options) {
			for j := range got[i].Options {
				v.Assert(v.DeepEqualNilEmpty(got[i].Options[j], want[i].Options[j]), "C16: an option's name, argument, default, assignment path or constraints differ from its field")
			}
		}
		v.Assert(len(got[i].Properties) == 0 && len(got[i].Factories) == 0, "C16: a derived builder has properties or factories")
	}
}
