package jsonschema

import (
	"strings"

	"github.com/grafana/cog/internal/ast"
	"github.com/grafana/cog/internal/languages"
	"github.com/grafana/cog/internal/orderedmap"
	v "github.com/grafana/cog/internal/zzverif"
	"github.com/grafana/cog/internal/zzverif/symir"
)

// ---------------------------------------------------------------- C12: the emitted JSON Schema
//
// GenerateSchema is executed on a symbolic context (two packages, cross-package
// references, objects of the same name in both packages); the assembled document (nested
// ordered maps) is inspected: every $ref resolves inside the document, every object and
// field appears under its own name, required-ness / constraints / enum values / defaults
// are carried over unchanged.

// c12Refs collects every "$ref" string of a document node.
func c12Refs(node any, out []string) []string {
	switch n := node.(type) {
	case *orderedmap.Map[string, any]:
		if n == nil {
			return out
		}
		n.Iterate(func(k string, val any) {
			if k == "$ref" {
				if s, ok := val.(string); ok {
					out = append(out, s)
				}
				return
			}
			out = c12Refs(val, out)
		})
	case *orderedmap.Map[string, Definition]:
		if n == nil {
			return out
		}
		n.Iterate(func(_ string, d Definition) { out = c12Refs(d, out) })
	case []Definition:
		for _, d := range n {
			out = c12Refs(d, out)
		}
	case map[string]any:
		for _, val := range n {
			out = c12Refs(val, out)
		}
	}
	return out
}

func c12Gen() *symir.Gen {
	g := symir.Default()
	g.Pkgs = []string{"p", "q"}
	g.RefPkgs = []string{"p", "q"}
	g.Names = []string{"Foo", "Bar"}
	g.RefNames = []string{"Foo", "Bar", "Baz", "Qux"}
	g.Fields = []string{"a", "b"}
	g.Scalars = []string{"string", "int64", "any"}
	g.Leaves = symir.KScalar | symir.KRef | symir.KEnum | symir.KConstScalar
	g.Kinds = symir.KScalar | symir.KRef | symir.KEnum | symir.KArray | symir.KMap | symir.KStruct | symir.KDisjunction
	g.Width = 2
	g.Required = true
	g.Defaults = true
	g.Constraints = true
	// structs of one field, unions of up to three branches (the third a scalar or null)
	g.Kinds = symir.KScalar | symir.KConstScalar | symir.KRef | symir.KArray | symir.KMap | symir.KStruct | symir.KDisjunction
	g.Width = 1
	g.UnionWidth = 3
	g.UnionTailLeaves = symir.KScalar | symir.KNullScalar
	g.UnionExtraLeaves = symir.KNullScalar
	if v.Tier() == 0 {
		g.Scalars = []string{"string", "int64"}
		g.Leaves = symir.KScalar | symir.KRef | symir.KEnum
	}
	// thorough: additionally the `any` scalar kind and constants in leaf positions (structs of two fields with
	// defaults and constraints on both square the number of shapes and do not complete)
	return g
}

func VerifC12GenerateSchema() {
	g := c12Gen()
	// the main object carries defaults/constraints/required-ness; its neighbours are plain
	plain := c12Gen()
	plain.Defaults, plain.Constraints, plain.Required = false, false, false
	plain.Leaves = symir.KScalar | symir.KRef
	plain.Scalars = []string{"string"}
	p := ast.NewSchema("p", ast.SchemaMeta{})
	mainName := g.Name()
	p.AddObject(ast.NewObject("p", mainName, g.Type(1)))
	otherName := g.Name()
	v.Assume(otherName != mainName)
	p.AddObject(ast.NewObject("p", otherName, plain.Type(0)))
	plain.Names = []string{"Foo", "Baz", "Qux"} // one name shared with p, two of its own
	q := plain.Schema("q", 0, 0) // two objects: a reference chain of two hops through the other package is possible
	if v.Bool("entrypoint") {
		p.EntryPoint = g.Name()
	}
	schemas := ast.Schemas{p, q}
	v.Assume(symir.AllResolve(schemas))
	v.Observe(schemas)
	jenny := Schema{}
	jenny.ReferenceFormatter = jenny.defaultRefFormatter
	doc := jenny.GenerateSchema(languages.Context{Schemas: schemas}, p)
	defsAny := doc.Get("definitions")
	defs, ok := defsAny.(*orderedmap.Map[string, Definition])
	v.Assert(ok && defs != nil, "C12: the document has no definitions")
	if !ok || defs == nil {
		return
	}
	// (i) every $ref of the document names one of its definitions
	for _, ref := range c12Refs(doc, nil) {
		v.Assert(strings.HasPrefix(ref, "#/definitions/"), "C12: a $ref does not point into the document's definitions")
		v.Assert(defs.Has(strings.TrimPrefix(ref, "#/definitions/")), "C12: a $ref of the emitted JSON Schema does not resolve")
	}
	// (ii) every object of the schema is a definition under its own name, and is not
	// overwritten by a same-named object inlined from another package
	sameNameForeign := false
	q.Objects.Iterate(func(qn string, _ ast.Object) {
		p.Objects.Iterate(func(pn string, _ ast.Object) { sameNameForeign = v.Or(sameNameForeign, qn == pn) })
	})
	v.Excuse("foreign-object-same-name", sameNameForeign)
	// every reference of the schema's objects denotes, in the document, the object it denotes in the IR
	describe := func(o ast.Object) Definition {
		fresh := Schema{ReferenceFormatter: jenny.ReferenceFormatter}
		fresh.foreignObjects = orderedmap.New[string, ast.Object]()
		fresh.isForeignReference = func(ast.RefType) bool { return false }
		return fresh.objectToDefinition(o)
	}
	p.Objects.Iterate(func(_ string, o ast.Object) {
		for _, pos := range symir.Collect(o.Type, "", nil) {
			if !strings.HasSuffix(pos.Where, ":ref") {
				continue
			}
			target, found := schemas.LocateObject(pos.Pkg, pos.Name)
			if found && defs.Has(pos.Name) {
				v.Assert(v.DeepEqualNilEmpty(defs.Get(pos.Name), describe(target)), "C12: a $ref of the emitted JSON Schema points to the definition of a different object")
			}
		}
	})
	p.Objects.Iterate(func(name string, o ast.Object) {
		v.Assert(defs.Has(name), "C12: an object of the schema is missing from the definitions")
		if !defs.Has(name) {
			return
		}
		d := defs.Get(name)
		fresh := Schema{ReferenceFormatter: jenny.ReferenceFormatter}
		fresh.foreignObjects = orderedmap.New[string, ast.Object]()
		fresh.isForeignReference = func(ast.RefType) bool { return false }
		v.Assert(v.DeepEqualNilEmpty(d, fresh.objectToDefinition(o)), "C12: the definition under an object's name does not describe that object")
		// (iii) fields, required-ness, constraints, enum values, defaults
		c12CheckType(d, o.Type)
	})
}

// c12CheckType compares one definition node with the IR type it was emitted for.
func c12CheckType(d Definition, t ast.Type) {
	switch t.Kind {
	case ast.KindStruct:
		props, ok := d.Get("properties").(*orderedmap.Map[string, any])
		v.Assert(ok && props != nil && props.Len() == len(t.Struct.Fields), "C12: a struct's properties are not exactly its fields")
		if !ok || props == nil {
			return
		}
		var required []string
		for _, f := range t.Struct.Fields {
			v.Assert(props.Has(f.Name), "C12: a field does not appear under its own name")
			if f.Required {
				required = append(required, f.Name)
			}
			if !props.Has(f.Name) {
				continue
			}
			fd, _ := props.Get(f.Name).(Definition)
			if fd == nil {
				v.Assert(false, "C12: a property is not a schema object")
				continue
			}
			if f.Type.Default != nil {
				v.Assert(fd.Has("default") && v.DeepEqual(fd.Get("default"), f.Type.Default), "C12: a field's default is not carried over unchanged")
			} else {
				v.Assert(!fd.Has("default"), "C12: a default appears for a field that has none")
			}
			c12CheckType(fd, f.Type)
		}
		got, _ := d.Get("required").([]string)
		v.Assert(v.DeepEqualNilEmpty(got, required), "C12: `required` is not exactly the required fields")
	case ast.KindScalar:
		if t.Scalar.ScalarKind == ast.KindNull {
			v.Assert(v.DeepEqual(d.Get("type"), "null"), "C12: a null branch is not described as type null")
		}
		for _, c := range t.Scalar.Constraints {
			key := ""
			numeric := t.Scalar.ScalarKind != ast.KindString && t.Scalar.ScalarKind != ast.KindBytes
			switch c.Op {
			case ast.MinLengthOp:
				if !numeric {
					key = "minLength"
				}
			case ast.MaxLengthOp:
				if !numeric {
					key = "maxLength"
				}
			case ast.GreaterThanEqualOp:
				if numeric {
					key = "minimum"
				}
			case ast.GreaterThanOp:
				if numeric {
					key = "exclusiveMinimum"
				}
			case ast.LessThanEqualOp:
				if numeric {
					key = "maximum"
				}
			case ast.LessThanOp:
				if numeric {
					key = "exclusiveMaximum"
				}
			}
			if key != "" && t.Scalar.ScalarKind != ast.KindAny {
				v.Assert(d.Has(key) && v.DeepEqual(d.Get(key), c.Args[0]), "C12: a constraint is not carried over unchanged")
				// and under no other bound keyword (an inclusive bound must not become exclusive, ...)
				for _, other := range []string{"minimum", "exclusiveMinimum", "maximum", "exclusiveMaximum", "minLength", "maxLength"} {
					if other != key && len(t.Scalar.Constraints) == 1 {
						v.Assert(!d.Has(other), "C12: a constraint is emitted under the wrong keyword")
					}
				}
			}
		}
		if t.Scalar.Value != nil {
			v.Assert(d.Has("const") && v.DeepEqual(d.Get("const"), t.Scalar.Value), "C12: a constant is not carried over unchanged")
		}
	case ast.KindEnum:
		vals, _ := d.Get("enum").([]any)
		v.Assert(len(vals) == len(t.Enum.Values), "C12: enum values are not carried over")
		if len(vals) == len(t.Enum.Values) {
			for i, m := range t.Enum.Values {
				v.Assert(v.DeepEqual(vals[i], m.Value), "C12: an enum value is altered")
			}
		}
	case ast.KindDisjunction:
		branches, _ := d.Get("anyOf").([]Definition)
		v.Assert(len(branches) == len(t.Disjunction.Branches), "C12: a union is not described by one anyOf entry per branch")
		if len(branches) == len(t.Disjunction.Branches) {
			for i, b := range t.Disjunction.Branches {
				c12CheckType(branches[i], b)
			}
		}
	case ast.KindArray:
		if items, ok := d.Get("items").(Definition); ok && items != nil {
			c12CheckType(items, t.Array.ValueType)
		} else {
			v.Assert(false, "C12: an array has no items schema")
		}
	case ast.KindMap:
		if ap, ok := d.Get("additionalProperties").(Definition); ok && ap != nil {
			c12CheckType(ap, t.Map.ValueType)
		} else {
			v.Assert(false, "C12: a map has no additionalProperties schema")
		}
	}
}
