package yaml

import (
	"bytes"

	"github.com/grafana/cog/internal/ast"
	"github.com/grafana/cog/internal/jennies/golang"
	"github.com/grafana/cog/internal/languages"
	"github.com/grafana/cog/internal/veneers/rewrite"
	v "github.com/grafana/cog/internal/zzverif"
)

// C04, YAML mode: a schema-transformation file is user input. An IR type written in YAML
// (retype_field/add_fields/add_object/retype_object ... `as:`) may be ill-formed: a `kind` without the
// member that kind needs, with a member of another kind, or an unknown kind. Loading such a file, applying
// the transformations, and what the pipeline does next (the Go chain, builder derivation) must end in
// files or in an error — never in a panic.

func c04Obj(kv ...any) v.J {
	o := v.J{Kind: v.JObject}
	for i := 0; i+1 < len(kv); i += 2 {
		o.Keys = append(o.Keys, kv[i].(string))
		switch x := kv[i+1].(type) {
		case v.J:
			o.Vals = append(o.Vals, x)
		case string:
			o.Vals = append(o.Vals, v.J{Kind: v.JString, Str: x})
		case bool:
			o.Vals = append(o.Vals, v.J{Kind: v.JBool, Bool: x})
		}
	}
	return o
}

func c04Arr(items ...v.J) v.J { return v.J{Kind: v.JArray, Arr: items} }

var c04Kinds = []string{"scalar", "array", "map", "struct", "ref", "enum", "disjunction", "intersection", "constant_ref", "composable_slot"}

// c04Member: the well-formed member document for a kind (key, value).
func c04Member(kind string) (string, v.J) {
	str := c04Obj("kind", "scalar", "scalar", c04Obj("scalar_kind", "string"))
	switch kind {
	case "scalar":
		return "scalar", c04Obj("scalar_kind", "string")
	case "array":
		return "array", c04Obj("value_type", str)
	case "map":
		return "map", c04Obj("indextype", str, "valuetype", str)
	case "struct":
		return "struct", c04Obj("fields", c04Arr(c04Obj("name", "n", "type", str, "required", true)))
	case "ref":
		return "ref", c04Obj("referred_pkg", "p", "referred_type", "Bar")
	case "enum":
		return "enum", c04Obj("values", c04Arr(c04Obj("type", str, "name", "A", "value", "a")))
	case "disjunction":
		return "disjunction", c04Obj("branches", c04Arr(str, c04Obj("kind", "scalar", "scalar", c04Obj("scalar_kind", "bool"))))
	case "intersection":
		return "intersection", c04Obj("branches", c04Arr(c04Obj("kind", "ref", "ref", c04Obj("referred_pkg", "p", "referred_type", "Bar"))))
	case "constant_ref":
		return "constantreference", c04Obj("referred_pkg", "p", "referred_type", "En", "reference_value", "a")
	default:
		return "composable_slot", c04Obj("variant", "dataquery")
	}
}

func c04TypeDoc() v.J {
	ki := v.Choose(len(c04Kinds) + 1)
	kind := "bogus"
	if ki < len(c04Kinds) {
		kind = c04Kinds[ki]
	}
	switch v.Choose(3) {
	case 0: // well-formed
		if kind == "bogus" {
			return c04Obj("kind", kind)
		}
		k, m := c04Member(kind)
		return c04Obj("kind", kind, k, m)
	case 1: // the member the kind needs is missing
		return c04Obj("kind", kind)
	default: // the member of another kind
		other := c04Kinds[v.Choose(len(c04Kinds))]
		k, m := c04Member(other)
		return c04Obj("kind", kind, k, m)
	}
}

func VerifC04YAMLTypes() {
	t := c04TypeDoc()
	var pass v.J
	switch v.Choose(4) {
	case 0:
		pass = c04Obj("retype_field", c04Obj("field", "p.Foo.a", "as", t))
	case 1:
		pass = c04Obj("add_fields", c04Obj("to", "p.Foo", "fields", c04Arr(c04Obj("name", "extra", "type", t))))
	case 2:
		pass = c04Obj("add_object", c04Obj("object", "p.New", "as", t))
	default:
		pass = c04Obj("retype_object", c04Obj("object", "p.Foo", "as", t))
	}
	doc := c04Obj("passes", c04Arr(pass))
	passes, err := NewCompilerLoader().Load(bytes.NewReader(v.JSONBytes(doc)))
	if err != nil {
		v.Reach("the loader rejected the file")
		return
	}
	p := ast.NewSchema("p", ast.SchemaMeta{})
	p.AddObject(ast.NewObject("p", "Foo", ast.NewStruct(ast.NewStructField("a", ast.String()), ast.NewStructField("b", ast.NewRef("p", "Bar")))))
	p.AddObject(ast.NewObject("p", "Bar", ast.NewStruct(ast.NewStructField("x", ast.String()))))
	p.AddObject(ast.NewObject("p", "En", ast.NewEnum([]ast.EnumValue{{Type: ast.String(), Name: "A", Value: "a"}})))
	out, err := passes.Process(ast.Schemas{p})
	if err != nil {
		v.Reach("the transformations returned an error")
		return
	}
	out, err = (&golang.Language{}).CompilerPasses().Process(out)
	if err != nil {
		v.Reach("the Go chain returned an error")
		return
	}
	_ = (&ast.BuilderGenerator{}).FromAST(out)
	v.Reach("the pipeline went through")
}

// VerifC04YAMLVeneers: a builder-transformation file with malformed pieces (paths that are empty,
// lead through non-struct fields or dangle, assignment values with no member, ill-formed argument
// types, selectors naming absent builders/options, envelopes on scalar fields), loaded with the real
// loader and applied with the real rewriter to builders derived from a small schema; then what the
// pipeline does with builders next (nil-check pass). Error or result, never a panic.
func VerifC04YAMLVeneers() {
	// (a fork, not a symbolic string: MakePath splits the path and a 12-way string union is wider than the engine's bound)
	paths := []string{"opts.level", "opts", "name", "", "opts.level.deeper", "nope", "opts.", ".", "tags", "other.x", "vars", "items"}
	path := paths[v.Choose(len(paths))]
	t := c04TypeDoc()
	arg := c04Obj("name", "a", "type", t)
	var value v.J
	switch v.Choose(4) {
	case 0:
		value = c04Obj("argument", arg)
	case 1:
		value = c04Obj("constant", "c")
	case 2:
		value = c04Obj() // no member at all
	default:
		value = c04Obj("envelope", c04Obj("values", c04Arr(c04Obj("field", v.Str("envfield", "level", "nope", ""), "value", c04Obj("argument", arg)))))
	}
	assignment := c04Obj("path", path, "method", v.Str("method", "direct", "append", "index", "bogus", ""), "value", value)
	sel := v.Str("object", "Foo", "foo", "Nope", "")
	var doc v.J
	switch v.Choose(5) {
	case 0:
		doc = c04Obj("language", "all", "package", "p", "builders", c04Arr(c04Obj("add_option", c04Obj("by_object", sel,
			"option", c04Obj("name", "extra", "arguments", c04Arr(arg), "assignments", c04Arr(assignment))))))
	case 1:
		doc = c04Obj("language", "all", "package", "p", "options", c04Arr(c04Obj("add_assignment", c04Obj("by_name", sel+"."+v.Str("opt", "name", "opts", "nope", ""), "assignment", assignment))))
	case 2:
		doc = c04Obj("language", "all", "package", "p", "builders", c04Arr(c04Obj("initialize", c04Obj("by_object", sel,
			"set", c04Arr(c04Obj("property", path, "value", "init"))))))
	case 3:
		doc = c04Obj("language", "all", "package", "p", "builders", c04Arr(c04Obj("properties", c04Obj("by_object", sel,
			"set", c04Arr(c04Obj("name", "prop", "type", t))))))
	default:
		doc = c04Obj("language", "all", "package", "p", "builders", c04Arr(c04Obj("merge_into", c04Obj("destination", sel, "source", v.Str("source", "Opts", "Foo", "Nope"),
			"under_path", path))))
	}
	rules, err := NewVeneersLoader().load(bytes.NewReader(v.JSONBytes(doc)))
	if err != nil {
		v.Reach("the loader rejected the file")
		return
	}
	p := ast.NewSchema("p", ast.SchemaMeta{})
	p.AddObject(ast.NewObject("p", "Foo", ast.NewStruct(
		ast.NewStructField("name", ast.String()),
		ast.NewStructField("tags", ast.NewArray(ast.String())),
		ast.NewStructField("opts", ast.NewRef("p", "Opts")),
		ast.NewStructField("vars", ast.NewMap(ast.String(), ast.NewRef("p", "Opts"))),
		ast.NewStructField("items", ast.NewArray(ast.NewRef("p", "Opts"))),
		ast.NewStructField("other", ast.NewRef("q", "Missing")),
	)))
	p.AddObject(ast.NewObject("p", "Opts", ast.NewStruct(ast.NewStructField("level", ast.NewScalar(ast.KindInt64)))))
	schemas := ast.Schemas{p}
	builders := (&ast.BuilderGenerator{}).FromAST(schemas)
	rw := rewrite.NewRewrite([]rewrite.LanguageRules{rules}, rewrite.Config{})
	out, err := rw.ApplyTo(schemas, builders, "go")
	if err != nil {
		v.Reach("the rewriter returned an error")
		return
	}
	ctx := languages.Context{Schemas: schemas, Builders: out}
	if _, err := languages.GenerateBuilderNilChecks(&golang.Language{}, ctx); err != nil {
		v.Reach("nil checks returned an error")
		return
	}
	v.Reach("the pipeline went through")
}

// VerifC17YAMLMergeDestination (C17): `merge_into.destination` names a BUILDER. After a builder was duplicated,
// only the builder of that name receives the merged options — not every builder of the same object.
func VerifC17YAMLMergeDestination() {
	dest := v.Str("destination", "Foo", "Lite")
	doc := c04Obj("language", "all", "package", "p", "builders", c04Arr(
		c04Obj("duplicate", c04Obj("by_object", "Foo", "as", "Lite")),
		c04Obj("merge_into", c04Obj("destination", dest, "source", "Opts", "under_path", "opts")),
	))
	rules, err := NewVeneersLoader().load(bytes.NewReader(v.JSONBytes(doc)))
	v.Assert(err == nil, "C17: a valid builder-transformation file is rejected")
	if err != nil {
		return
	}
	p := ast.NewSchema("p", ast.SchemaMeta{})
	p.AddObject(ast.NewObject("p", "Foo", ast.NewStruct(ast.NewStructField("name", ast.String()), ast.NewStructField("opts", ast.NewRef("p", "Opts")))))
	p.AddObject(ast.NewObject("p", "Opts", ast.NewStruct(ast.NewStructField("level", ast.NewScalar(ast.KindInt64)))))
	schemas := ast.Schemas{p}
	builders := (&ast.BuilderGenerator{}).FromAST(schemas)
	out, err := rewrite.NewRewrite([]rewrite.LanguageRules{rules}, rewrite.Config{}).ApplyTo(schemas, builders, "go")
	v.Assert(err == nil, "C17: duplicate followed by merge_into fails")
	if err != nil {
		return
	}
	seen := 0
	for _, b := range out {
		if b.For.Name != "Foo" {
			continue
		}
		seen++
		hasLevel := false
		for _, o := range b.Options {
			hasLevel = hasLevel || o.Name == "level"
		}
		v.Assert(hasLevel == (b.Name == dest), "C17: merge_into changed a builder other than the one its destination names (or left that one unchanged)")
	}
	v.Assert(seen == 2, "C17: duplicate did not produce a second builder for the object")
}
