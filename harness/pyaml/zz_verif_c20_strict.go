package yaml

import (
	"bytes"
	"strings"

	v "github.com/grafana/cog/internal/zzverif"
)

// Strict decoding of the schema-transformation and builder-transformation files (C20).
//
// The documents come from the PUBLISHED schemas (schemas/compiler_passes.json, schemas/veneers.json,
// read from /repo on every run by tools/gen_configdocs.py): one document declaring every key path the
// schema declares. (a) Unmodified, the loader must not reject any of its keys ("a file that validates in
// an editor loads" as far as keys go). (b) With one undeclared member injected at any one mapping node
// whose keys the schema fixes — a fresh key, a declared key with another capitalisation, or a near miss
// of a declared key — the loader must fail and name that key.

func c20StrictCheck(inject int, injectedKey string, err error) {
	if inject < 0 {
		v.Assert(err == nil || !(strings.Contains(err.Error(), "not found in type") || strings.Contains(err.Error(), "already defined")),
			"C20: a key the published schema declares is rejected by the loader")
		return
	}
	v.Assert(err != nil && strings.Contains(err.Error(), "field "+injectedKey+" not found"), "C20: an undeclared key is not rejected by the loader")
}

func VerifC20StrictPasses() {
	count := &c20PassesGen{inject: -1}
	count.document()
	inject := v.Choose(count.n+1) - 1
	g := &c20PassesGen{inject: inject}
	if inject >= 0 {
		g.variant = v.Choose(3)
	}
	doc := g.document()
	_, err := NewCompilerLoader().Load(bytes.NewReader(v.JSONBytes(doc)))
	c20StrictCheck(inject, g.injectedKey, err)
}

func VerifC20StrictVeneers() {
	count := &c20VeneersGen{inject: -1}
	count.document()
	inject := v.Choose(count.n+1) - 1
	g := &c20VeneersGen{inject: inject}
	if inject >= 0 {
		g.variant = v.Choose(3)
	}
	doc := g.document()
	_, err := NewVeneersLoader().load(bytes.NewReader(v.JSONBytes(doc)))
	c20StrictCheck(inject, g.injectedKey, err)
}
