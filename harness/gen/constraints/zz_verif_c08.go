package constraints

import (
	"errors"
	"strconv"

	"verifgen/cog"
	v "verifgen/internal/zzverif"
)

// ---------------------------------------------------------------- C08(a): generated Validate()
//
// The value is symbolic (ints are bit-vectors of the Go width, the float an IEEE
// double, strings are abstract with symbolic rune/byte lengths, optional pointers and
// collection lengths forked). The oracle is written from corpus/c08/constraints.json.

type c08Leaf struct {
	path     string
	violated bool
}

func c08Key(name string) string { return v.Str(name, "k", "q", "") }

func c08Child(name string, path string, leaves *[]c08Leaf) Child {
	c := Child{Id: v.Int64(name + ".id")}
	*leaves = append(*leaves, c08Leaf{path + "id", !(c.Id >= 1)})
	if v.Bool(name + ".hastag") {
		s := v.AStr(name + ".tag")
		c.Tag = &s
		*leaves = append(*leaves, c08Leaf{path + "tag", !(len([]rune(s)) >= 1)})
	}
	return c
}

// c08Root builds a Root whose fields of one group are symbolic; the fields of the other
// groups hold fixed valid values (Validate checks every field on every path, so the
// number of paths is exponential in the number of symbolic constraints: the groups keep
// it tractable and are stated as the bound).
func c08Root(group int) (Root, []c08Leaf) {
	var leaves []c08Leaf
	r := Root{Name: "abc", Count: 5, Items: []string{}, Child: Child{Id: 1}, Limits: map[string]Child{}}
	if group == 0 {
		r.Name = v.AStr("name")
		n := len([]rune(r.Name))
		leaves = append(leaves, c08Leaf{"name", v.Or(!(n >= 2), !(n <= 5))})
		if v.Bool("hasnick") {
			s := v.AStr("nick")
			r.Nick = &s
			leaves = append(leaves, c08Leaf{"nick", !(len([]rune(s)) >= 1)})
		}
		r.Count = v.Int64("count")
		leaves = append(leaves, c08Leaf{"count", v.Or(!(r.Count >= 1), !(r.Count <= 10))})
		if v.Bool("hasratio") {
			f := v.Float64("ratio")
			r.Ratio = &f
			leaves = append(leaves, c08Leaf{"ratio", v.Or(!(f > 0), !(f < 1))})
		}
	}
	if group == 1 {
		ni := v.Choose(3)
		for i := 0; i < ni; i++ {
			s := v.AStr("item")
			r.Items = append(r.Items, s)
			leaves = append(leaves, c08Leaf{"items[" + strconv.Itoa(i) + "]", !(len([]rune(s)) >= 1)})
		}
		ns := v.Choose(3)
		if ns > 0 {
			r.Scores = map[string]int64{}
		}
		for i := 0; i < ns; i++ {
			k := c08Key("scorekey")
			for prev := range r.Scores {
				v.Assume(prev != k)
			}
			x := v.Int64("score")
			r.Scores[k] = x
			leaves = append(leaves, c08Leaf{"scores[" + k + "]", !(x >= 0)})
		}
	}
	if group == 2 {
		r.Child = c08Child("child", "child.", &leaves)
		if v.Bool("hasmaybe") {
			c := c08Child("maybe", "maybe.", &leaves)
			r.Maybe = &c
		}
		r.Inner.Depth = v.Int64("depth")
		leaves = append(leaves, c08Leaf{"inner.depth", v.Or(!(r.Inner.Depth >= 0), !(r.Inner.Depth <= 3))})
		if v.Bool("haslabel") {
			s := v.AStr("label")
			r.Inner.Label = &s
			leaves = append(leaves, c08Leaf{"inner.label", !(len([]rune(s)) <= 3)})
		}
	}
	if group == 3 {
		nc := v.Choose(3)
		for i := 0; i < nc; i++ {
			r.Children = append(r.Children, c08Child("children", "children["+strconv.Itoa(i)+"].", &leaves))
		}
		nl := v.Choose(2)
		for i := 0; i < nl; i++ {
			k := c08Key("limitkey")
			r.Limits[k] = c08Child("limits", "limits["+k+"].", &leaves)
		}
	}
	return r, leaves
}

// VerifC08Validate: Validate() returns an error iff the value violates a constraint,
// and reports exactly the paths of the offending fields.
func VerifC08Validate() {
	r, leaves := c08Root(v.Choose(4))
	err := r.Validate()
	viol := false
	for _, l := range leaves {
		viol = v.Or(viol, l.violated)
	}
	v.Assert((err != nil) == viol, "C08: Validate() does not return an error exactly when a constraint is violated")
	var errs cog.BuildErrors
	if err != nil {
		v.Assert(errors.As(err, &errs), "C08: Validate() returned an error that is not a BuildErrors")
	}
	for _, l := range leaves {
		reported := false
		for _, e := range errs {
			reported = v.Or(reported, e.Path == l.path)
		}
		v.Assert(reported == l.violated, "C08: Validate() does not report exactly the paths of the offending fields")
	}
	for _, e := range errs {
		known := false
		for _, l := range leaves {
			known = v.Or(known, e.Path == l.path)
		}
		v.Assert(known, "C08: Validate() reports a path that is not a constrained field of the value")
	}
}
