package constraints

import (
	v "verifgen/internal/zzverif"
)

// ---------------------------------------------------------------- C08(b): the generated strict decoder
//
// The document is a symbolic JSON tree (v.J): for every declared member a presence choice
// and a value of any JSON kind, plus an optional undeclared member. The oracle is the
// property's list: reject iff an undeclared field is present, a required field without default
// is absent, a required non-nullable field holds null, or a value has the wrong JSON type
// (from corpus/c08/constraints.json).

// jAny builds a value of an arbitrary JSON kind; it returns the node and its kind.
func jAny(name string) v.J {
	switch v.Choose(7) {
	case 0:
		return v.J{Kind: v.JNull}
	case 1:
		return v.J{Kind: v.JBool, Bool: v.Bool(name + ".bool")}
	case 2:
		return v.J{Kind: v.JNumber, Num: v.Int64(name + ".num")}
	case 3:
		return v.J{Kind: v.JNumber, Num: v.Int64(name + ".num"), Frac: true}
	case 4:
		return v.J{Kind: v.JString, Str: v.AStr(name + ".str")}
	case 5:
		return v.J{Kind: v.JArray}
	default:
		return v.J{Kind: v.JObject}
	}
}

func isInt(j v.J) bool    { return j.Kind == v.JNumber && !j.Frac }
func isNumber(j v.J) bool { return j.Kind == v.JNumber }
func isString(j v.J) bool { return j.Kind == v.JString }

// member adds (or not) a member to the object under construction and returns (present, value).
func member(obj *v.J, key string) (bool, v.J) {
	if v.Choose(2) == 0 {
		return false, v.J{}
	}
	val := jAny(key)
	obj.Keys = append(obj.Keys, key)
	obj.Vals = append(obj.Vals, val)
	return true, val
}

func extra(obj *v.J) bool {
	if v.Choose(2) == 0 {
		return false
	}
	obj.Keys = append(obj.Keys, "zzz")
	obj.Vals = append(obj.Vals, v.J{Kind: v.JNumber, Num: 1})
	return true
}

// required: absent, null or wrong type => reject
func badRequired(present bool, val v.J, okType func(v.J) bool) bool {
	return !present || val.Kind == v.JNull || !okType(val)
}

// optional: absent and null are fine
func badOptional(present bool, val v.J, okType func(v.J) bool) bool {
	return present && val.Kind != v.JNull && !okType(val)
}

// VerifC08StrictChild: Child{id: integer (required), tag?: string}, no additional properties.
func VerifC08StrictChild() {
	doc := v.J{Kind: v.JObject}
	pid, id := member(&doc, "id")
	ptag, tag := member(&doc, "tag")
	undeclared := extra(&doc)
	reject := badRequired(pid, id, isInt) || badOptional(ptag, tag, isString) || undeclared
	var c Child
	err := c.UnmarshalJSONStrict(v.JSONBytes(doc))
	v.Assert((err != nil) == reject, "C08: the strict decoder does not reject exactly what the schema forbids (Child)")
	if err == nil {
		v.Assert(c.Id == id.Num, "C08: the strict decoder accepted a document but decoded a different value")
	}
}

// VerifC08StrictTop: a top-level value that is not an object is a value of the wrong JSON type.
func VerifC08StrictTop() {
	doc := jAny("top")
	v.Assume(doc.Kind != v.JObject)
	var c Child
	err := c.UnmarshalJSONStrict(v.JSONBytes(doc))
	v.Assert(err != nil, "C08: the strict decoder accepts a document that is not an object")
}

func validChild() v.J {
	return v.J{Kind: v.JObject, Keys: []string{"id"}, Vals: []v.J{{Kind: v.JNumber, Num: 1}}}
}

// validRoot: a valid Root document whose members can be overridden one group at a time.
func validRoot() v.J {
	return v.J{Kind: v.JObject,
		Keys: []string{"name", "count", "items", "child", "limits", "inner"},
		Vals: []v.J{
			{Kind: v.JString, Str: "abc"},
			{Kind: v.JNumber, Num: 5},
			{Kind: v.JArray},
			validChild(),
			{Kind: v.JObject},
			{Kind: v.JObject, Keys: []string{"depth"}, Vals: []v.J{{Kind: v.JNumber, Num: 1}}},
		}}
}

// set replaces (or removes) a member of a valid document.
func set(doc v.J, key string, present bool, val v.J) v.J {
	out := v.J{Kind: v.JObject}
	for i, k := range doc.Keys {
		if k != key {
			out.Keys = append(out.Keys, k)
			out.Vals = append(out.Vals, doc.Vals[i])
		}
	}
	if present {
		out.Keys = append(out.Keys, key)
		out.Vals = append(out.Vals, val)
	}
	return out
}

// childDoc builds an arbitrary Child document and says whether it must be rejected.
func childDoc(name string) (v.J, bool) {
	switch v.Choose(3) {
	case 0:
		return validChild(), false
	case 1: // an object with symbolic members
		doc := v.J{Kind: v.JObject}
		pid, id := member(&doc, "id")
		undeclared := extra(&doc)
		return doc, badRequired(pid, id, isInt) || undeclared
	default: // not an object at all
		d := jAny(name)
		v.Assume(d.Kind != v.JObject && d.Kind != v.JNull)
		return d, true
	}
}

// VerifC08StrictRoot: Root, one member (group) symbolic at a time, the rest fixed and valid.
func VerifC08StrictRoot() {
	doc := validRoot()
	reject := false
	switch v.Choose(9) {
	case 0: // name: required string
		doc = set(doc, "name", false, v.J{})
		p, val := member(&doc, "name")
		reject = badRequired(p, val, isString)
	case 1: // count: required integer
		doc = set(doc, "count", false, v.J{})
		p, val := member(&doc, "count")
		reject = badRequired(p, val, isInt)
	case 2: // nick: optional string; ratio: optional number
		p, val := member(&doc, "nick")
		p2, val2 := member(&doc, "ratio")
		reject = badOptional(p, val, isString) || badOptional(p2, val2, isNumber)
	case 3: // items: required array of strings
		doc = set(doc, "items", false, v.J{})
		if v.Choose(2) == 1 {
			el := jAny("item")
			doc = set(doc, "items", true, v.J{Kind: v.JArray, Arr: []v.J{el}})
			reject = !isString(el) && el.Kind != v.JNull
			v.Excuse("null-element-of-scalar-array", el.Kind == v.JNull)
			if el.Kind == v.JNull {
				reject = true // null is not a string
			}
		} else {
			p, val := member(&doc, "items")
			reject = badRequired(p, val, func(j v.J) bool { return j.Kind == v.JArray })
		}
	case 4: // scores: optional map of integers
		if v.Choose(2) == 1 {
			el := jAny("score")
			doc = set(doc, "scores", true, v.J{Kind: v.JObject, Keys: []string{"k"}, Vals: []v.J{el}})
			reject = !isInt(el)
			v.Excuse("null-element-of-scalar-map", el.Kind == v.JNull)
		} else {
			p, val := member(&doc, "scores")
			reject = badOptional(p, val, func(j v.J) bool { return j.Kind == v.JObject })
		}
	case 5: // child: required object
		d, bad := childDoc("child")
		doc = set(doc, "child", true, d)
		reject = bad
	case 6: // maybe: optional object
		d, bad := childDoc("maybe")
		doc = set(doc, "maybe", true, d)
		reject = bad
	case 7: // children: optional array of objects
		d, bad := childDoc("children")
		doc = set(doc, "children", true, v.J{Kind: v.JArray, Arr: []v.J{validChild(), d}})
		reject = bad
	default: // limits: required map of objects; plus an undeclared member at the top level
		d, bad := childDoc("limits")
		doc = set(doc, "limits", true, v.J{Kind: v.JObject, Keys: []string{"k"}, Vals: []v.J{d}})
		reject = bad || extra(&doc)
	}
	var r Root
	err := r.UnmarshalJSONStrict(v.JSONBytes(doc))
	v.Assert((err != nil) == reject, "C08: the strict decoder does not reject exactly what the schema forbids (Root)")
}
