package aliases

import (
	v "verifgen/internal/zzverif"
)

// Corpus corpus/c08/aliases.json: constrained structs reached through alias objects (LeafAlias -> Leaf;
// an alias of an alias is not in the corpus: its generated builder does not compile), and required fields that have a default — including the zero-valued
// defaults 0, false and "" — which the strict decoder must not report as missing.

func aLeaf(name string) (Leaf, bool) {
	id := v.Int64(name + ".id")
	return Leaf{Id: id}, id < 1
}

// VerifC08AliasValidate: Validate() returns an error iff some Leaf reached directly or through an alias
// (required, optional, array element) violates `id >= 1`.
func VerifC08AliasValidate() {
	h := Holder{}
	bad := false
	var b bool
	h.Direct, b = aLeaf("direct")
	bad = v.Or(bad, b)
	h.ViaAlias, b = aLeaf("viaAlias")
	bad = v.Or(bad, b)
	if v.Choose(2) == 1 {
		l, lb := aLeaf("maybeAlias")
		h.MaybeAlias = &l
		bad = v.Or(bad, lb)
	}
	n := v.Choose(3)
	for i := 0; i < n; i++ {
		l, lb := aLeaf("list")
		h.List = append(h.List, l)
		bad = v.Or(bad, lb)
	}
	// `maxLength: 0`: only the empty string is allowed
	blank := v.Str("blank", "", "x")
	h.Blank = &blank
	bad = v.Or(bad, blank != "")
	err := h.Validate()
	v.Assert((err != nil) == bad, "C08: Validate() does not return an error exactly when a constraint is violated (through aliases)")
}

func aNum(n int64) v.J { return v.J{Kind: v.JNumber, Num: n} }

func aLeafDoc() v.J { return v.J{Kind: v.JObject, Keys: []string{"id"}, Vals: []v.J{aNum(1)}} }

// VerifC08AliasStrict: each member of Holder present or absent (symbolic choice per member); the strict
// decoder must reject iff a required member WITHOUT a default (direct, viaAlias) is absent.
func VerifC08AliasStrict() {
	doc := v.J{Kind: v.JObject}
	add := func(key string, val v.J) bool {
		if v.Choose(2) == 1 {
			doc.Keys = append(doc.Keys, key)
			doc.Vals = append(doc.Vals, val)
			return true
		}
		return false
	}
	direct := add("direct", aLeafDoc())
	via := add("viaAlias", aLeafDoc())
	add("maybeAlias", aLeafDoc())
	add("retries", aNum(v.Int64("retries")))
	add("enabled", v.J{Kind: v.JBool, Bool: v.Bool("enabled")})
	add("label", v.J{Kind: v.JString, Str: v.Str("label", "", "x")})
	add("size", aNum(v.Int64("size")))
	// the same nullable union (`string | boolean | null`) used by two required fields: null is a legal value for both
	unionVal := func(name string) v.J {
		switch v.Choose(3) {
		case 0:
			return v.J{Kind: v.JNull}
		case 1:
			return v.J{Kind: v.JString, Str: "s"}
		default:
			return v.J{Kind: v.JBool, Bool: v.Bool(name)}
		}
	}
	first := add("first", unionVal("first"))
	second := add("second", unionVal("second"))
	var h Holder
	err := h.UnmarshalJSONStrict(v.JSONBytes(doc))
	v.Assert((err != nil) == (!direct || !via || !first || !second), "C08: the strict decoder does not reject exactly the documents lacking a required member that has no default (Holder)")
}
