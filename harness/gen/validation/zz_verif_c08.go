package validation

import (
	"errors"
	"strconv"

	"verifgen/cog"
	v "verifgen/internal/zzverif"
)

// C08(a) on the repository's own validation schema (testdata/schemas/validation/validation.cue):
// uid?: minRunes 1, id?: >0, title: minRunes 1, tags[]: minRunes 1, labels{}: minRunes 1, panels[].title: minRunes 1.

type c08Leaf struct {
	path     string
	violated bool
}

func VerifC08ValidateDashboard() {
	var leaves []c08Leaf
	d := Dashboard{}
	if v.Bool("hasuid") {
		s := v.AStr("uid")
		d.Uid = &s
		leaves = append(leaves, c08Leaf{"uid", !(len([]rune(s)) >= 1)})
	}
	if v.Bool("hasid") {
		x := v.Int64("id")
		d.Id = &x
		leaves = append(leaves, c08Leaf{"id", !(x > 0)})
	}
	d.Title = v.AStr("title")
	leaves = append(leaves, c08Leaf{"title", !(len([]rune(d.Title)) >= 1)})
	nt := v.Choose(3)
	for i := 0; i < nt; i++ {
		s := v.AStr("tag")
		d.Tags = append(d.Tags, s)
		leaves = append(leaves, c08Leaf{"tags[" + strconv.Itoa(i) + "]", !(len([]rune(s)) >= 1)})
	}
	nl := v.Choose(3)
	if nl > 0 {
		d.Labels = map[string]string{}
	}
	for i := 0; i < nl; i++ {
		k := v.Str("labelkey", "k", "q", "")
		for prev := range d.Labels {
			v.Assume(prev != k)
		}
		s := v.AStr("label")
		d.Labels[k] = s
		leaves = append(leaves, c08Leaf{"labels[" + k + "]", !(len([]rune(s)) >= 1)})
	}
	np := v.Choose(3)
	for i := 0; i < np; i++ {
		s := v.AStr("paneltitle")
		d.Panels = append(d.Panels, Panel{Title: s})
		leaves = append(leaves, c08Leaf{"panels[" + strconv.Itoa(i) + "].title", !(len([]rune(s)) >= 1)})
	}
	err := d.Validate()
	viol := false
	for _, l := range leaves {
		viol = v.Or(viol, l.violated)
	}
	v.Assert((err != nil) == viol, "C08: Validate() does not return an error exactly when a constraint is violated")
	var errs cog.BuildErrors
	if err != nil {
		v.Assert(errors.As(err, &errs), "C08: Validate() returned an error that is not a BuildErrors")
	}
	for _, l := range leaves {
		reported := false
		for _, e := range errs {
			reported = v.Or(reported, e.Path == l.path)
		}
		v.Assert(reported == l.violated, "C08: Validate() does not report exactly the paths of the offending fields")
	}
}
