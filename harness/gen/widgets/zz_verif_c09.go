package widgets

import (
	"errors"

	"verifgen/cog"
	v "verifgen/internal/zzverif"
)

// ---------------------------------------------------------------- C09: a builder option sets exactly its target
//
// Generated builder of corpus/c09/widgets.json. One option (symbolic argument) is applied to a
// fresh builder; the built object must differ from the freshly constructed default object
// exactly at that option's target; constructor constants are always present; Build() fails iff
// the object violates a constraint or a nested builder failed.

// c09OptionsStub is a nested builder returning an arbitrary Options value and,
// symbolically, an error (what a real nested builder's Build() can do).
type c09OptionsStub struct {
	val  Options
	fail bool
}

func (s c09OptionsStub) Build() (Options, error) {
	if s.fail {
		return Options{}, cog.BuildErrors{&cog.BuildError{Path: "mode", Message: "stub failure"}}
	}
	return s.val, nil
}

func c09SymOptions(name string) Options {
	o := Options{Mode: OptionsMode(v.Str(name+".mode", "light", "dark", "other"))}
	if v.Bool(name + ".haslevel") {
		l := v.Int64(name + ".level")
		o.Level = &l
	}
	return o
}

func c09OptionsViol(o Options) bool {
	if o.Level != nil {
		return !(*o.Level >= 0)
	}
	return false
}

func c09Viol(w Widget) bool {
	viol := v.Or(!(w.Size >= 1), !(w.Size <= 9))
	viol = v.Or(viol, !(len([]rune(w.Title)) >= 1))
	viol = v.Or(viol, c09OptionsViol(w.Options))
	if w.Style != nil {
		viol = v.Or(viol, c09OptionsViol(*w.Style))
	}
	return viol
}

const (
	c09Meta = iota
	c09Opts
	c09Size
	c09Style
	c09Tags
	c09Title
	c09Visible
	c09Weight
	c09Count
)

// c09Apply applies option `opt` with fresh symbolic arguments; it returns whether a nested builder failed
// and a function that checks the target of the option on the built object.
func c09Apply(b *WidgetBuilder, opt int) (nestedFailed bool, target func(w Widget)) {
	switch opt {
	case c09Meta:
		var m map[string]string
		switch v.Choose(3) {
		case 1:
			m = map[string]string{}
		case 2:
			m = map[string]string{v.Str("metakey", "k", ""): v.AStr("metaval")}
		}
		b.Meta(m)
		return false, func(w Widget) { v.Assert(v.DeepEqual(w.Meta, m), "C09: option Meta does not set its target to the given value") }
	case c09Opts:
		stub := c09OptionsStub{val: c09SymOptions("options"), fail: v.Bool("options.fail")}
		b.Options(stub)
		return stub.fail, func(w Widget) {
			if !stub.fail {
				v.Assert(v.DeepEqual(w.Options, stub.val), "C09: option Options does not set its target to the nested builder's result")
			}
		}
	case c09Size:
		x := v.Int64("size")
		b.Size(x)
		return false, func(w Widget) { v.Assert(w.Size == x, "C09: option Size does not set its target to the given value") }
	case c09Style:
		stub := c09OptionsStub{val: c09SymOptions("style"), fail: v.Bool("style.fail")}
		b.Style(stub)
		return stub.fail, func(w Widget) {
			if !stub.fail {
				v.Assert(w.Style != nil && v.DeepEqual(*w.Style, stub.val), "C09: option Style does not set its target to the nested builder's result")
			}
		}
	case c09Tags:
		var t []string
		switch v.Choose(3) {
		case 1:
			t = []string{}
		case 2:
			t = []string{v.AStr("tag")}
		}
		b.Tags(t)
		return false, func(w Widget) { v.Assert(v.DeepEqual(w.Tags, t), "C09: option Tags does not set its target to the given value") }
	case c09Title:
		s := v.AStr("title")
		b.Title(s)
		return false, func(w Widget) { v.Assert(w.Title == s, "C09: option Title does not set its target to the given value") }
	case c09Visible:
		x := v.Bool("visible")
		b.Visible(x)
		return false, func(w Widget) { v.Assert(w.Visible != nil && *w.Visible == x, "C09: option Visible does not set its target to the given value") }
	default:
		f := v.Float64("weight")
		b.Weight(f)
		return false, func(w Widget) { v.Assert(w.Weight != nil && *w.Weight == f, "C09: option Weight does not set its target to the given value") }
	}
}

// c09Clear blanks the target field of an option (for the frame comparison).
func c09Clear(w Widget, opt int) Widget {
	switch opt {
	case c09Meta:
		w.Meta = nil
	case c09Opts:
		w.Options = Options{}
	case c09Size:
		w.Size = 0
	case c09Style:
		w.Style = nil
	case c09Tags:
		w.Tags = nil
	case c09Title:
		w.Title = ""
	case c09Visible:
		w.Visible = nil
	default:
		w.Weight = nil
	}
	return w
}

// VerifC09Option: one option on a fresh builder.
func VerifC09Option() {
	def := *NewWidgetBuilder().internal
	// constructor constants and schema defaults of the freshly constructed default object
	v.Assert(def.Kind == "widget" && def.Version == 2, "C09: constructor constants are missing from the default object")
	b := NewWidgetBuilder()
	opt := v.Choose(c09Count)
	nestedFailed, target := c09Apply(b, opt)
	got := *b.internal
	v.Assert(got.Kind == "widget" && got.Version == 2, "C09: constructor constants are missing after an option")
	target(got)
	v.Assert(v.DeepEqual(c09Clear(got, opt), c09Clear(def, opt)), "C09: an option changed something other than its target")
	built, err := b.Build()
	v.Excuse("nested-builder-failed", nestedFailed)
	v.Assert((err != nil) == v.Or(c09Viol(got), nestedFailed), "C09: Build() does not fail exactly when a constraint is violated or a nested builder failed")
	if err == nil {
		v.Assert(v.DeepEqual(built, got), "C09: Build() returns something other than the object the options assembled")
	} else {
		var errs cog.BuildErrors
		v.Assert(errors.As(err, &errs), "C09: Build() returned an error that is not a BuildErrors")
	}
}

// VerifC09TwoOptions: two options on distinct targets commute and each keeps the other's write.
func VerifC09TwoOptions() {
	o1 := v.Choose(c09Count)
	o2 := v.Choose(c09Count)
	v.Assume(o1 != o2)
	b := NewWidgetBuilder()
	_, t1 := c09Apply(b, o1)
	_, t2 := c09Apply(b, o2)
	got := *b.internal
	t1(got)
	t2(got)
	def := *NewWidgetBuilder().internal
	v.Assert(v.DeepEqual(c09Clear(c09Clear(got, o1), o2), c09Clear(c09Clear(def, o1), o2)), "C09: two options changed something other than their targets")
}
