package shapes

import (
	"errors"
	"strconv"

	"verifgen/cog"
	v "verifgen/internal/zzverif"
)

// C08(a) on corpus/c13/shapes.json: constraints at NESTED positions — array of arrays,
// map of maps, array of maps, map of referenced structs, optional reference, and the
// items of a named array type.

type c08Leaf struct {
	path     string
	violated bool
}

func c08Key(name string) string { return v.Str(name, "k", "q") }

func c08Point(name, path string, leaves *[]c08Leaf) Point {
	p := Point{X: v.Int64(name + ".x")}
	*leaves = append(*leaves, c08Leaf{path + "x", !(p.X >= 0)})
	if v.Bool(name + ".hasnote") {
		s := v.AStr(name + ".note")
		p.Note = &s
		*leaves = append(*leaves, c08Leaf{path + "note", !(len([]rune(s)) <= 4)})
	}
	return p
}

func VerifC08ValidateShapes() {
	var leaves []c08Leaf
	s := Shapes{Grid: [][]string{}, MapOfMaps: map[string]map[string]string{}, Tags: Tags{}, PointsByName: map[string]Point{}}
	namedArrayItem := false
	switch v.Choose(5) {
	case 0: // grid: up to 2 rows x up to 2 cells
		nr := v.Choose(3)
		for i := 0; i < nr; i++ {
			nc := v.Choose(3)
			row := []string{}
			for j := 0; j < nc; j++ {
				c := v.AStr("cell")
				row = append(row, c)
				leaves = append(leaves, c08Leaf{"grid[" + strconv.Itoa(i) + "][" + strconv.Itoa(j) + "]", !(len([]rune(c)) >= 1)})
			}
			s.Grid = append(s.Grid, row)
		}
	case 1: // map of maps
		no := v.Choose(3)
		for i := 0; i < no; i++ {
			ko := c08Key("outerkey")
			for prev := range s.MapOfMaps {
				v.Assume(prev != ko)
			}
			inner := map[string]string{}
			ni := v.Choose(3)
			for j := 0; j < ni; j++ {
				ki := c08Key("innerkey")
				for prev := range inner {
					v.Assume(prev != ki)
				}
				c := v.AStr("mmval")
				inner[ki] = c
				leaves = append(leaves, c08Leaf{"mapOfMaps[" + ko + "][" + ki + "]", !(len([]rune(c)) >= 1)})
			}
			s.MapOfMaps[ko] = inner
		}
	case 2: // rows: array of maps of integers >= 1
		nr := v.Choose(3)
		for i := 0; i < nr; i++ {
			row := map[string]int64{}
			nk := v.Choose(3)
			for j := 0; j < nk; j++ {
				k := c08Key("rowkey")
				for prev := range row {
					v.Assume(prev != k)
				}
				x := v.Int64("rowval")
				row[k] = x
				leaves = append(leaves, c08Leaf{"rows[" + strconv.Itoa(i) + "][" + k + "]", !(x >= 1)})
			}
			s.Rows = append(s.Rows, row)
		}
	case 3: // referenced structs: by name in a map, and optional
		np := v.Choose(3)
		for i := 0; i < np; i++ {
			k := c08Key("pointkey")
			for prev := range s.PointsByName {
				v.Assume(prev != k)
			}
			s.PointsByName[k] = c08Point("point", "pointsByName["+k+"].", &leaves)
		}
		if v.Bool("hasorigin") {
			o := c08Point("origin", "origin.", &leaves)
			s.Origin = &o
		}
	default: // items of the named array type Tags (required field and optional reference)
		nt := v.Choose(3)
		for i := 0; i < nt; i++ {
			c := v.AStr("tag")
			s.Tags = append(s.Tags, c)
			leaves = append(leaves, c08Leaf{"tags[" + strconv.Itoa(i) + "]", !(len([]rune(c)) >= 1)})
			namedArrayItem = true
		}
		if v.Bool("hasmoretags") {
			c := v.AStr("moretag")
			mt := Tags{c}
			s.MoreTags = &mt
			leaves = append(leaves, c08Leaf{"moreTags[0]", !(len([]rune(c)) >= 1)})
			namedArrayItem = true
		}
	}
	err := s.Validate()
	viol := false
	for _, l := range leaves {
		viol = v.Or(viol, l.violated)
	}
	v.Excuse("constraint-on-named-array-items", namedArrayItem)
	v.Assert((err != nil) == viol, "C08: Validate() does not return an error exactly when a constraint is violated")
	var errs cog.BuildErrors
	if err != nil {
		v.Assert(errors.As(err, &errs), "C08: Validate() returned an error that is not a BuildErrors")
	}
	for _, l := range leaves {
		reported := false
		for _, e := range errs {
			reported = v.Or(reported, e.Path == l.path)
		}
		v.Assert(reported == l.violated, "C08: Validate() does not report exactly the paths of the offending fields")
	}
}
