package panel

import (
	common "verifgen/common"
	v "verifgen/internal/zzverif"
)

// Corpus corpus/cue/{common,panel}: a struct of package `panel` refers to a constrained struct of ANOTHER
// package (`common.Legend{width: 0..100}`) directly, optionally, in an array and in a map, and to a local one.

func pLegend(name string) (common.Legend, bool) {
	w := v.Uint64(name + ".width") // cog types `int64 & >=0 & <=100` as uint64
	return common.Legend{Width: w}, w > 100
}

// VerifC08CrossPackage: Validate() returns an error iff some constraint reached through a reference —
// into the other package or local — is violated.
func VerifC08CrossPackage() {
	p := Panel{Title: "t"}
	bad := false
	var b bool
	p.Legend, b = pLegend("legend")
	bad = v.Or(bad, b)
	if v.Choose(2) == 1 {
		l, lb := pLegend("maybe")
		p.Maybe = &l
		bad = v.Or(bad, lb)
	}
	n := v.Choose(3)
	for i := 0; i < n; i++ {
		l, lb := pLegend("legends")
		p.Legends = append(p.Legends, l)
		bad = v.Or(bad, lb)
	}
	if v.Choose(2) == 1 {
		l, lb := pLegend("byName")
		p.ByName = map[string]common.Legend{"k": l}
		bad = v.Or(bad, lb)
	}
	size := v.Int64("local.size")
	p.Local = Local{Size: size}
	bad = v.Or(bad, size < 1)
	err := p.Validate()
	v.Assert((err != nil) == bad, "C08: Validate() does not return an error exactly when a constraint is violated (references into another package)")
}
