// Package hyaml hosts the configuration-decoding harnesses (hand-written unions and
// reference-string parsers; yaml.v3 strictness itself is not encodable).
package hyaml

import (
	"strings"

	"github.com/grafana/cog/internal/ast/compiler"
	v "github.com/grafana/cog/internal/zzverif"
)

func c20RefString() string {
	return v.Str("ref", "p.Foo", "p", "p.Foo.bar", "", ".", "p..x", "a.b.c.d", ".Foo", "p.", "p.Foo.")
}

// VerifC20ObjectReference: a malformed reference string is an error, never a reference
// with shifted or dropped components.
func VerifC20ObjectReference() {
	s := c20RefString()
	ref, err := compiler.ObjectReferenceFromString(s)
	dots := strings.Count(s, ".")
	if dots != 1 {
		v.Assert(err != nil, "C20: an object reference without exactly one dot is accepted")
	}
	if err == nil {
		v.Assert(ref.Package+"."+ref.Object == s, "C20: a parsed object reference does not spell the configured string")
	}
}

func VerifC20FieldReference() {
	s := c20RefString()
	ref, err := compiler.FieldReferenceFromString(s)
	dots := strings.Count(s, ".")
	if dots != 2 {
		v.Assert(err != nil, "C20: a field reference without exactly two dots is accepted")
	}
	if err == nil {
		v.Assert(ref.Package+"."+ref.Object+"."+ref.Field == s, "C20: a parsed field reference does not spell the configured string")
	}
}
