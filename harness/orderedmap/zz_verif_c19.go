package orderedmap

import (
	"sort"

	v "github.com/grafana/cog/internal/zzverif"
)

// ---------------------------------------------------------------- reference model
// A map that remembers first-insertion order: a slice of pairs.

type c19Model struct {
	keys []string
	vals []int
}

func (r *c19Model) idx(k string) int {
	for i, x := range r.keys {
		if x == k {
			return i
		}
	}
	return -1
}

func (r *c19Model) set(k string, val int) {
	if i := r.idx(k); i >= 0 {
		r.vals[i] = val
		return
	}
	r.keys = append(r.keys, k)
	r.vals = append(r.vals, val)
}

func (r *c19Model) remove(k string) {
	i := r.idx(k)
	if i < 0 {
		return
	}
	nk := make([]string, 0, len(r.keys))
	nv := make([]int, 0, len(r.keys))
	for j := range r.keys {
		if j != i {
			nk = append(nk, r.keys[j])
			nv = append(nv, r.vals[j])
		}
	}
	r.keys, r.vals = nk, nv
}

func c19Key(name string) string { return v.Str(name, "a", "b", "c", "d") }

// c19Agree asserts that m satisfies the representation invariant and is
// observationally equal to the model through Len/Iterate/Values/At/Has/Get.
func c19Agree(m *Map[string, int], ref *c19Model) {
	v.Assert(m.Len() == len(ref.keys), "Len disagrees with the reference map")
	v.Assert(len(m.records) == len(m.order), "invariant: records and order have different sizes")
	i := 0
	m.Iterate(func(k string, x int) {
		v.Assert(i < len(ref.keys) && k == ref.keys[i], "iteration order disagrees with first-insertion order")
		v.Assert(i < len(ref.vals) && x == ref.vals[i], "iterated value disagrees with the reference map")
		i++
	})
	v.Assert(i == len(ref.keys), "Iterate visits a different number of entries")
	vals := m.Values()
	v.Assert(len(vals) == len(ref.vals), "Values has the wrong length")
	for j := range vals {
		if j < len(ref.vals) {
			v.Assert(vals[j] == ref.vals[j], "Values disagrees with the reference map")
			v.Assert(m.At(j) == ref.vals[j], "At disagrees with the reference map")
		}
	}
	for _, k := range ref.keys {
		v.Assert(m.Has(k), "a live key is not reported by Has")
	}
}

// c19Op applies one symbolic operation to both the real map and the model.
func c19Op(m *Map[string, int], ref *c19Model, ops int) (*Map[string, int], *c19Model) {
	key := c19Key("key")
	// operations 0-8: the in-memory API; 9, 10: JSON decode / encode
	switch v.Choose(ops) {
	case 9: // UnmarshalJSON of a symbolic document (members may repeat a key, or name keys already present) into the current map
		doc := v.J{Kind: v.JObject}
		nr := &c19Model{keys: append([]string{}, ref.keys...), vals: append([]int{}, ref.vals...)}
		members := v.Choose(4)
		for i := 0; i < members; i++ {
			dk := c19Key("dk")
			dv := v.Int("dv", 0, 100)
			doc.Keys = append(doc.Keys, dk)
			doc.Vals = append(doc.Vals, v.J{Kind: v.JNumber, Num: int64(dv)})
			nr.set(dk, dv)
		}
		err := m.UnmarshalJSON(v.JSONBytes(doc))
		v.Assert(err == nil, "UnmarshalJSON rejects a JSON object of integers")
		return m, nr
	case 10: // MarshalJSON, then UnmarshalJSON into a fresh map: same entries in the same order
		out, err := m.MarshalJSON()
		v.Assert(err == nil, "MarshalJSON fails")
		c19Agree(m, ref) // the receiver is untouched
		back := New[string, int]()
		err = back.UnmarshalJSON(out)
		v.Assert(err == nil, "MarshalJSON output is not a JSON object its own decoder accepts")
		return back, ref
	case 0: // Set
		val := v.Int("nv", 0, 100)
		m.Set(key, val)
		ref.set(key, val)
	case 1: // Remove
		m.Remove(key)
		ref.remove(key)
	case 2: // Has / Get
		i := ref.idx(key)
		v.Assert(m.Has(key) == (i >= 0), "Has disagrees with the reference map")
		if i >= 0 {
			v.Assert(m.Get(key) == ref.vals[i], "Get disagrees with the reference map")
		} else {
			v.Assert(m.Get(key) == 0, "Get of an absent key is not the zero value")
		}
	case 3: // Filter with an arbitrary threshold predicate on values and a key predicate
		thr := v.Int("thr", 0, 100)
		f := m.Filter(func(k string, x int) bool { return x < thr && k != key })
		nr := &c19Model{}
		for i, k := range ref.keys {
			if ref.vals[i] < thr && k != key {
				nr.set(k, ref.vals[i])
			}
		}
		c19Agree(m, ref) // the receiver is untouched
		v.Assert(f != m && v.SharedHeap(f, m) == "", "Filter returns a map that shares its records or its order with the receiver")
		return f, nr
	case 4: // Map with an arbitrary affine callback
		add := v.Int("add", 0, 5)
		f := m.Map(func(k string, x int) int {
			if k == key {
				return x
			}
			return x + add
		})
		nr := &c19Model{}
		for i, k := range ref.keys {
			if k == key {
				nr.set(k, ref.vals[i])
			} else {
				nr.set(k, ref.vals[i]+add)
			}
		}
		c19Agree(m, ref)
		v.Assert(f != m && v.SharedHeap(f, m) == "", "Map returns a map that shares its records or its order with the receiver")
		return f, nr
	case 5: // Sort ascending by key (stable)
		m.Sort(SortStrings)
		c19ModelSort(ref, func(a, b string) bool { return a < b })
	case 6: // Sort with a coarser strict weak order: keys compare by "is it `key`"
		less := func(a, b string) bool { return a == key && b != key }
		m.Sort(less)
		c19ModelSort(ref, less)
	case 7: // Equal against a copy built through the public API
		// Equal is not among the operations the property lists; it is checked on
		// non-empty maps only (on empty maps it distinguishes a nil from an empty
		// key slice, which no listed operation can observe).
		cp := New[string, int]()
		for i, k := range ref.keys {
			cp.Set(k, ref.vals[i])
		}
		if len(ref.keys) > 0 {
			v.Assert(m.Equal(cp), "Equal is false for a map with the same entries in the same order")
			cp.Set(ref.keys[0], ref.vals[0]+1)
			v.Assert(!m.Equal(cp), "Equal is true for maps holding different values")
		}
	case 8: // FromMap: keys sorted, every entry kept
		src := map[string]int{}
		for i, k := range ref.keys {
			src[k] = ref.vals[i]
		}
		fm := FromMap(src)
		nr := &c19Model{}
		ks := append([]string{}, ref.keys...)
		sort.Strings(ks)
		for _, k := range ks {
			nr.set(k, ref.vals[ref.idx(k)])
		}
		return fm, nr
	}
	return m, ref
}

// stable insertion sort on the model
func c19ModelSort(r *c19Model, less func(a, b string) bool) {
	for i := 1; i < len(r.keys); i++ {
		for j := i; j > 0 && less(r.keys[j], r.keys[j-1]); j-- {
			r.keys[j], r.keys[j-1] = r.keys[j-1], r.keys[j]
			r.vals[j], r.vals[j-1] = r.vals[j-1], r.vals[j]
		}
	}
}

// VerifC19Step: one operation from an ARBITRARY state satisfying the
// representation invariant (order = n pairwise distinct keys, records = exactly
// those keys). One inductive step covers histories of any length.
func VerifC19Step() {
	maxN := 4 // the whole alphabet: every state over {a,b,c,d}
	n := v.Choose(maxN + 1)
	m := New[string, int]()
	ref := &c19Model{}
	for i := 0; i < n; i++ {
		k := c19Key("k")
		for _, prev := range ref.keys {
			v.Assume(prev != k)
		}
		val := v.Int("v", 0, 100)
		// construct the pre-state directly (skip the API under test)
		m.records[k] = val
		m.order = append(m.order, k)
		ref.keys = append(ref.keys, k)
		ref.vals = append(ref.vals, val)
	}
	v.Excuse("empty-map", n == 0)
	m, ref = c19Op(m, ref, 11)
	c19Agree(m, ref)
}

// VerifC19History: bounded histories from New(), compared with the model after
// every step (guards against the invariant of VerifC19Step being too weak or too strong).
func VerifC19History() {
	steps := 4
	if v.Tier() > 0 {
		steps = 5
	}
	m := New[string, int]()
	ref := &c19Model{}
	for i := 0; i < steps; i++ {
		v.Excuse("empty-map", len(ref.keys) == 0)
		m, ref = c19Op(m, ref, 9)
		c19Agree(m, ref)
	}
}

// VerifC19JSONHistory: short histories that include the JSON operations.
func VerifC19JSONHistory() {
	steps := 2
	if v.Tier() > 0 {
		steps = 3
	}
	m := New[string, int]()
	ref := &c19Model{}
	for i := 0; i < steps; i++ {
		v.Excuse("empty-map", len(ref.keys) == 0)
		m, ref = c19Op(m, ref, 11)
		c19Agree(m, ref)
	}
}

// VerifC19JSONDocs: documents that are not an object of integers are rejected with an error
// (never a panic), whatever the state of the map.
func VerifC19JSONDocs() {
	m := New[string, int]()
	if v.Bool("nonempty") {
		m.Set(c19Key("k"), v.Int("v", 0, 100))
	}
	var doc v.J
	switch v.Choose(6) {
	case 0:
		doc = v.J{Kind: v.JNull}
	case 1:
		doc = v.J{Kind: v.JNumber, Num: int64(v.Int("n", 0, 9))}
	case 2:
		doc = v.J{Kind: v.JString, Str: c19Key("s")}
	case 3:
		doc = v.J{Kind: v.JArray, Arr: []v.J{{Kind: v.JNumber, Num: 1}}}
	case 4: // a member whose value is not a number
		doc = v.J{Kind: v.JObject, Keys: []string{c19Key("dk")}, Vals: []v.J{{Kind: v.JString, Str: "x"}}}
	default: // a fractional number for an int value
		doc = v.J{Kind: v.JObject, Keys: []string{c19Key("dk")}, Vals: []v.J{{Kind: v.JNumber, Num: 1, Frac: true}}}
	}
	err := m.UnmarshalJSON(v.JSONBytes(doc))
	v.Assert(err != nil, "UnmarshalJSON accepts a document that is not a JSON object of integers")
	v.Assert(len(m.records) == len(m.order), "invariant: records and order have different sizes")
}

// VerifC19SortStability: Sort must keep keys that the comparison treats as equal in first-insertion order.
// Go's unstable sort.Slice happens to be stable below 13 elements (insertion sort), so the small maps of the
// other entries cannot tell it from sort.SliceStable natively: here 14 keys in two groups are sorted by
// their first byte only.
func VerifC19SortStability() {
	m := New[string, int]()
	ref := &c19Model{}
	groups := []string{"b", "a"}
	if v.Bool("swapgroups") {
		groups = []string{"a", "b"}
	}
	for i := 0; i < 14; i++ {
		k := groups[i%2] + string(rune('0'+i/2))
		m.Set(k, i)
		ref.set(k, i)
	}
	less := func(x, y string) bool { return x[0] < y[0] }
	m.Sort(less)
	c19ModelSort(ref, less)
	c19Agree(m, ref)
}

// VerifC03FromMap (C03): FromMap ranges over a Go map; its result must not depend on the order.
func VerifC03FromMap() {
	src := map[string]int{}
	n := 2 + v.Choose(2)
	var keys []string
	for i := 0; i < n; i++ {
		k := c19Key("k")
		for _, prev := range keys {
			v.Assume(prev != k)
		}
		keys = append(keys, k)
		src[k] = v.Int("v", 0, 100)
	}
	v.SymOrder(true)
	a := FromMap(src)
	b := FromMap(src)
	v.SymOrder(false)
	v.Assert(a.Equal(b), "C03: FromMap depends on map iteration order")
}
