package compiler

import (
	"github.com/grafana/cog/internal/ast"
	v "github.com/grafana/cog/internal/zzverif"
	"github.com/grafana/cog/internal/zzverif/symir"
)

// VerifC05Sequence: sequences of two name-changing transformations keep every reference resolving.
func VerifC05Sequence() {
	g := c05Gen()
	g.Pkgs = []string{"p"}
	g.RefPkgs = []string{"p"}
	g.Names = []string{"Foo", "Bar"}
	g.Leaves = symir.KScalar | symir.KRef
	g.Kinds = symir.KRef | symir.KArray | symir.KStruct | symir.KDisjunction
	p := g.Schema("p", 1, 0)
	in := ast.Schemas{p}
	v.Assume(symir.AllResolve(in))
	src := ObjectReference{Package: "p", Object: g.Name()}
	var passes Passes
	switch v.Choose(4) {
	case 0:
		passes = Passes{&DuplicateObject{Object: src, As: ObjectReference{Package: "p", Object: "Copy"}}, &PrefixObjectNames{Prefix: "X"}}
	case 1:
		passes = Passes{&RenameObject{From: src, To: "Renamed"}, &PrefixObjectNames{Prefix: "X"}}
	case 2:
		passes = Passes{&DuplicateObject{Object: src, As: ObjectReference{Package: "p", Object: "Copy"}}, &RenameObject{From: ObjectReference{Package: "p", Object: g.Name()}, To: "Renamed"}}
	default:
		passes = Passes{&PrefixObjectNames{Prefix: "X"}, &DuplicateObject{Object: ObjectReference{Package: "p", Object: "X" + src.Object}, As: ObjectReference{Package: "p", Object: "Copy"}}}
	}
	v.Observe(in)
	out, err := passes.Process(in)
	v.Assert(err == nil, "C05: a sequence of name-changing transformations returned an error")
	if err == nil {
		v.Observe(out)
		v.Assert(symir.AllResolve(out), "C05: dangling reference after a sequence of two name-changing transformations")
	}
}

// VerifC05AfterUnionToStruct: the structs DisjunctionToType creates keep the original union under a hint
// (branches, discriminator, mapping). A name-changing transformation applied afterwards (prefix, rename,
// duplicate) must keep the hint's branch references and mapping targets resolving, like any other reference.
func VerifC05AfterUnionToStruct() {
	p := ast.NewSchema("p", ast.SchemaMeta{})
	u := ast.NewDisjunction(ast.Types{ast.NewRef("p", "Circle"), ast.NewRef("p", "Square")})
	if v.Bool("explicitmapping") {
		u.Disjunction.Discriminator = "type"
		u.Disjunction.DiscriminatorMapping = map[string]string{"circle": "Circle", "square": "Square"}
	}
	switch v.Choose(3) {
	case 0:
		p.AddObject(ast.NewObject("p", "Canvas", ast.NewStruct(ast.NewStructField("shape", u, ast.Required()))))
	case 1:
		p.AddObject(ast.NewObject("p", "Canvas", ast.NewStruct(ast.NewStructField("shapes", ast.NewArray(u)))))
	default:
		p.AddObject(ast.NewObject("p", "Canvas", u))
	}
	p.AddObject(ast.NewObject("p", "Circle", ast.NewStruct(ast.NewStructField("type", ast.NewScalar(ast.KindString, ast.Value("circle")), ast.Required()))))
	p.AddObject(ast.NewObject("p", "Square", ast.NewStruct(ast.NewStructField("type", ast.NewScalar(ast.KindString, ast.Value("square")), ast.Required()))))
	var second Pass
	switch v.Choose(3) {
	case 0:
		second = &PrefixObjectNames{Prefix: "Pre"}
	case 1:
		renamed := v.Str("renamed", "Circle", "Canvas", "CircleOrSquare")
		v.Excuse("rename-object-named-by-a-mapping", renamed == "Circle")
		second = &RenameObject{From: ObjectReference{Package: "p", Object: renamed}, To: "Renamed"}
	default:
		second = &DuplicateObject{Object: ObjectReference{Package: "p", Object: v.Str("duplicated", "Canvas", "CircleOrSquare")}, As: ObjectReference{Package: "p", Object: "Copy"}}
	}
	in := ast.Schemas{p}
	mid, err := Passes{&DisjunctionInferMapping{}, &DisjunctionToType{}}.Process(in)
	if err != nil {
		v.Reach("union-to-struct returned an error")
		return
	}
	v.Assume(symir.AllResolve(mid))
	v.Observe(mid)
	out, err := Passes{second}.Process(mid)
	v.Assert(err == nil, "C05: a name-changing transformation after union-to-struct returned an error")
	if err == nil {
		v.Observe(out)
		v.Assert(symir.AllResolve(out), "C05: dangling reference (or mapping target) after union-to-struct followed by a name-changing transformation")
	}
}
