package compiler

import (
	"github.com/grafana/cog/internal/ast"
	v "github.com/grafana/cog/internal/zzverif"
	"github.com/grafana/cog/internal/zzverif/symir"
)

// VerifC05Sequence: sequences of two name-changing transformations keep every reference resolving.
func VerifC05Sequence() {
	g := c05Gen()
	g.Pkgs = []string{"p"}
	g.RefPkgs = []string{"p"}
	g.Names = []string{"Foo", "Bar"}
	g.Leaves = symir.KScalar | symir.KRef
	g.Kinds = symir.KRef | symir.KArray | symir.KStruct | symir.KDisjunction
	p := g.Schema("p", 1, 0)
	in := ast.Schemas{p}
	v.Assume(symir.AllResolve(in))
	src := ObjectReference{Package: "p", Object: g.Name()}
	var passes Passes
	switch v.Choose(4) {
	case 0:
		passes = Passes{&DuplicateObject{Object: src, As: ObjectReference{Package: "p", Object: "Copy"}}, &PrefixObjectNames{Prefix: "X"}}
	case 1:
		passes = Passes{&RenameObject{From: src, To: "Renamed"}, &PrefixObjectNames{Prefix: "X"}}
	case 2:
		passes = Passes{&DuplicateObject{Object: src, As: ObjectReference{Package: "p", Object: "Copy"}}, &RenameObject{From: ObjectReference{Package: "p", Object: g.Name()}, To: "Renamed"}}
	default:
		passes = Passes{&PrefixObjectNames{Prefix: "X"}, &DuplicateObject{Object: ObjectReference{Package: "p", Object: "X" + src.Object}, As: ObjectReference{Package: "p", Object: "Copy"}}}
	}
	v.Observe(in)
	out, err := passes.Process(in)
	v.Assert(err == nil, "C05: a sequence of name-changing transformations returned an error")
	if err == nil {
		v.Observe(out)
		v.Assert(symir.AllResolve(out), "C05: dangling reference after a sequence of two name-changing transformations")
	}
}
