package compiler

import (
	"github.com/grafana/cog/internal/ast"
	v "github.com/grafana/cog/internal/zzverif"
)

// VerifC03UserPasses: the user-configurable transformations whose parameters are Go maps
// (hint_object, fields_set_default) and those that walk hint / discriminator maps of the IR,
// run twice on clones of one input with the map iteration order symbolic: the two results —
// pass trails included, they are part of what `cog inspect` prints and of debug-mode output —
// must be deep-equal.
func VerifC03UserPasses() {
	which := v.Choose(6)
	p := ast.NewSchema("p", ast.SchemaMeta{})
	union := ast.NewDisjunction(ast.Types{ast.NewRef("p", "Bar"), ast.NewRef("p", "Baz")})
	union.Disjunction.Discriminator = "type"
	// each case carries only the maps its transformation walks (every ranged map multiplies the orders explored)
	if which == 2 || which == 3 {
		union.Disjunction.DiscriminatorMapping = map[string]string{"bar": "Bar", "baz": "Baz"}
	}
	if which == 3 {
		union.Hints = ast.JenniesHints{"h1": "x", "h2": "y"}
	}
	fooType := ast.NewStruct(
		ast.NewStructField("a", ast.String()),
		ast.NewStructField("b", ast.NewScalar(ast.KindInt64)),
		ast.NewStructField("u", union),
	)
	if which == 0 || which >= 4 {
		fooType.Hints = ast.JenniesHints{"k1": "v1", "k2": "v2"}
	}
	p.AddObject(ast.NewObject("p", "Foo", fooType))
	p.AddObject(ast.NewObject("p", "Bar", ast.NewStruct(ast.NewStructField("type", ast.NewScalar(ast.KindString, ast.Value("bar")), ast.Required()))))
	p.AddObject(ast.NewObject("p", "Baz", ast.NewStruct(ast.NewStructField("type", ast.NewScalar(ast.KindString, ast.Value("baz")), ast.Required()))))
	obj := ObjectReference{Package: "p", Object: v.Str("obj", "Foo", "Bar")}
	hint, da := v.Str("hint", "3", "4"), v.Str("da", "x", "y")
	var mk func() Pass
	switch which {
	case 0:
		mk = func() Pass {
			return &HintObject{Object: obj, Hints: ast.JenniesHints{"ha": "1", "hb": "2", "hc": hint}}
		}
	case 1:
		mk = func() Pass {
			return &FieldsSetDefault{DefaultValues: map[FieldReference]any{
				{Package: "p", Object: "Foo", Field: "a"}: da,
				{Package: "p", Object: "Foo", Field: "b"}: int64(1),
			}}
		}
	case 2:
		mk = func() Pass { return &PrefixObjectNames{Prefix: "Zoo"} }
	case 3:
		mk = func() Pass { return &DisjunctionToType{} }
	case 4:
		mk = func() Pass { return &RenameObject{From: obj, To: "Renamed"} }
	default:
		mk = func() Pass { return &DuplicateObject{Object: obj, As: ObjectReference{Package: "p", Object: "Copy"}} }
	}
	in := ast.Schemas{p}
	v.SymOrder(true)
	out1, err1 := Passes{mk()}.Process(v.Clone(in))
	out2, err2 := Passes{mk()}.Process(v.Clone(in))
	v.SymOrder(false)
	v.Assert((err1 == nil) == (err2 == nil), "C03: whether a transformation fails depends on map iteration order")
	if err1 != nil || err2 != nil {
		return
	}
	v.Assert(v.DeepEqualNilEmpty(out1, out2), "C03: the result of a user transformation (pass trails included) depends on map iteration order")
}
