package compiler

import (
	"strings"

	"github.com/grafana/cog/internal/ast"
	v "github.com/grafana/cog/internal/zzverif"
	"github.com/grafana/cog/internal/zzverif/symir"
)

// ---------------------------------------------------------------- C15
// Each user-configurable transformation against an in-harness reference model
// written from docs/reference/schema_transformations.md and the pass's doc comment
// (DESIGN.md appendix A). Matching rule: package exact, object and field names
// case-insensitive. The model edits an independent clone of the input; the
// comparison (modulo debug trails) is also the frame condition: everything the
// model does not touch must come out unchanged and in the same position.

func c15Gen(extraLeaves int) *symir.Gen {
	g := symir.Default()
	g.Pkgs = []string{"p", "q"}
	g.RefPkgs = []string{"p", "q"}
	g.Names = []string{"Foo", "foo", "Bar"}
	g.Fields = []string{"a", "A", "b"}
	g.Scalars = []string{"string", "int64"}
	g.Leaves = symir.KScalar | symir.KRef | extraLeaves
	g.Kinds = symir.KScalar | symir.KRef | symir.KArray | symir.KStruct | symir.KDisjunction | extraLeaves
	g.Width = 2
	g.Nullable = true
	g.Required = true
	return g
}

// c15Schemas: p{main object of depth 1, a second object that is a leaf}, q{one leaf object}.
func c15Schemas(g *symir.Gen) ast.Schemas {
	p := g.Schema("p", 1, 0)
	q := g.Schema("q", 0)
	if v.Bool("comments") {
		for _, s := range []*ast.Schema{p, q} {
			s.Objects = s.Objects.Map(func(_ string, o ast.Object) ast.Object {
				o.Comments = []string{"doc"}
				return o
			})
		}
	}
	return ast.Schemas{p, q}
}

func c15Obj() ObjectReference {
	return ObjectReference{Package: v.Str("pkg", "p", "q", "ext"), Object: v.Str("obj", "Foo", "foo", "Bar", "Nope")}
}

func c15Field(o ObjectReference) FieldReference {
	return FieldReference{Package: o.Package, Object: o.Object, Field: v.Str("fld", "a", "A", "b", "nope")}
}

func c15MatchObj(ref ObjectReference, pkg string, o ast.Object) bool {
	return pkg == ref.Package && strings.EqualFold(o.Name, ref.Object)
}

// ---- walking and normalisation

// c15Walk visits t and every type nested in it (array elements, map values, struct
// fields, union and intersection branches), bottom-up; f may edit the node in place.
func c15Walk(t *ast.Type, f func(t *ast.Type)) {
	switch t.Kind {
	case ast.KindArray:
		c15Walk(&t.Array.ValueType, f)
	case ast.KindMap:
		c15Walk(&t.Map.IndexType, f)
		c15Walk(&t.Map.ValueType, f)
	case ast.KindStruct:
		for i := range t.Struct.Fields {
			t.Struct.Fields[i].PassesTrail = nil
			c15Walk(&t.Struct.Fields[i].Type, f)
		}
	case ast.KindDisjunction:
		for i := range t.Disjunction.Branches {
			c15Walk(&t.Disjunction.Branches[i], f)
		}
	case ast.KindIntersection:
		for i := range t.Intersection.Branches {
			c15Walk(&t.Intersection.Branches[i], f)
		}
	case ast.KindEnum:
		for i := range t.Enum.Values {
			c15Walk(&t.Enum.Values[i].Type, f)
		}
	}
	f(t)
}

// c15Rebuild returns the schema's objects after applying f to each (drop=true removes it),
// keeping order and re-keying by the (possibly new) name.
func c15Rebuild(s *ast.Schema, f func(o ast.Object) (ast.Object, bool)) {
	old := s.Objects
	fresh := ast.NewSchema(s.Package, s.Metadata)
	old.Iterate(func(_ string, o ast.Object) {
		n, drop := f(o)
		if !drop {
			fresh.AddObject(n)
		}
	})
	s.Objects = fresh.Objects
}

// c15Strip removes the debug trails (not part of the documented effect).
func c15Strip(schemas ast.Schemas) {
	for _, s := range schemas {
		c15Rebuild(s, func(o ast.Object) (ast.Object, bool) {
			o.PassesTrail = nil
			c15Walk(&o.Type, func(t *ast.Type) { t.PassesTrail = nil })
			return o, false
		})
		c15Walk(&s.EntryPointType, func(t *ast.Type) { t.PassesTrail = nil })
	}
}

func c15Compare(out, ref ast.Schemas, msg string) bool {
	c15Strip(out)
	c15Strip(ref)
	return v.DeepEqualNilEmpty(out, ref)
}

// ---------------------------------------------------------------- the transformations

func VerifC15RenameObject() {
	in := c15Schemas(c15Gen(0))
	from := c15Obj()
	to := v.Str("to", "Baz", "Bar")
	v.Assume(!symir.Exists(in, from.Package, to))
	v.Assume(c05CountMatching(in, from) <= 1)
	ref := v.Clone(in)
	for _, s := range ref {
		c15Rebuild(s, func(o ast.Object) (ast.Object, bool) {
			if c15MatchObj(from, s.Package, o) {
				o.Name = to
				o.SelfRef.ReferredType = to
			}
			c15Walk(&o.Type, func(t *ast.Type) {
				if t.Kind == ast.KindRef && t.Ref.ReferredPkg == from.Package && strings.EqualFold(t.Ref.ReferredType, from.Object) {
					t.Ref.ReferredType = to
				}
			})
			return o, false
		})
	}
	v.Observe(in)
	out, err := Passes{&RenameObject{From: from, To: to}}.Process(in)
	v.Assert(err == nil, "C15: rename_object returned an error")
	if err == nil {
		v.Assert(c15Compare(out, ref, ""), "C15: rename_object: result differs from the documented effect (or something else changed)")
	}
}

func VerifC15Omit() {
	in := c15Schemas(c15Gen(0))
	sel := c15Obj()
	ref := v.Clone(in)
	for _, s := range ref {
		c15Rebuild(s, func(o ast.Object) (ast.Object, bool) { return o, c15MatchObj(sel, s.Package, o) })
	}
	out, err := Passes{&Omit{Objects: []ObjectReference{sel}}}.Process(in)
	v.Assert(err == nil, "C15: omit returned an error")
	if err == nil {
		v.Assert(c15Compare(out, ref, ""), "C15: omit: result differs from the documented effect (or something else changed)")
	}
}

// c15EditFields applies f to the fields of the selected struct objects.
func c15EditFields(ref ast.Schemas, sel FieldReference, f func(fields []ast.StructField, match func(ast.StructField) bool) []ast.StructField) {
	for _, s := range ref {
		c15Rebuild(s, func(o ast.Object) (ast.Object, bool) {
			if o.Type.Kind == ast.KindStruct && s.Package == sel.Package && strings.EqualFold(o.Name, sel.Object) {
				o.Type.Struct.Fields = f(o.Type.Struct.Fields, func(fd ast.StructField) bool { return strings.EqualFold(fd.Name, sel.Field) })
			}
			return o, false
		})
	}
}

func VerifC15OmitFields() {
	in := c15Schemas(c15Gen(0))
	sel := c15Field(c15Obj())
	ref := v.Clone(in)
	c15EditFields(ref, sel, func(fields []ast.StructField, match func(ast.StructField) bool) []ast.StructField {
		var keep []ast.StructField
		for _, f := range fields {
			if !match(f) {
				keep = append(keep, f)
			}
		}
		return keep
	})
	out, err := Passes{&OmitFields{Fields: []FieldReference{sel}}}.Process(in)
	v.Assert(err == nil, "C15: omit_fields returned an error")
	if err == nil {
		v.Assert(c15Compare(out, ref, ""), "C15: omit_fields: result differs from the documented effect (or something else changed)")
	}
}

func VerifC15AddFields() {
	in := c15Schemas(c15Gen(0))
	to := c15Obj()
	added := []ast.StructField{
		ast.NewStructField(v.Str("newfield", "a", "A", "z"), ast.NewScalar(ast.KindBool)),
		ast.NewStructField("y", ast.String(), ast.Required()),
	}
	ref := v.Clone(in)
	nonStructSelected := false
	for _, s := range ref {
		c15Rebuild(s, func(o ast.Object) (ast.Object, bool) {
			if !c15MatchObj(to, s.Package, o) {
				return o, false
			}
			if o.Type.Kind != ast.KindStruct {
				nonStructSelected = true
				return o, false
			}
			for _, nf := range added {
				exists := false
				for _, f := range o.Type.Struct.Fields {
					if f.Name == nf.Name { // "existing fields will not be overwritten"
						exists = true
					}
				}
				if !exists {
					o.Type.Struct.Fields = append(o.Type.Struct.Fields, v.Clone(nf))
				}
			}
			return o, false
		})
	}
	out, err := Passes{&AddFields{Object: to, Fields: added}}.Process(in)
	if nonStructSelected {
		v.Assert(err != nil, "C15: add_fields on a non-struct object did not return an error")
		return
	}
	v.Assert(err == nil, "C15: add_fields returned an error")
	if err == nil {
		v.Assert(c15Compare(out, ref, ""), "C15: add_fields: result differs from the documented effect (or something else changed)")
	}
}

func VerifC15AddObject() {
	in := c15Schemas(c15Gen(0))
	obj := ObjectReference{Package: v.Str("pkg", "p", "q", "ext"), Object: v.Str("newobj", "Baz", "Bar", "foo")}
	v.Assume(!symir.Exists(in, obj.Package, obj.Object))
	as := ast.NewStruct(ast.NewStructField("n", ast.String()))
	var comments []string
	if v.Bool("withcomments") {
		comments = []string{"added"}
	}
	ref := v.Clone(in)
	for _, s := range ref {
		if s.Package == obj.Package {
			o := ast.NewObject(obj.Package, obj.Object, v.Clone(as))
			o.Comments = comments
			s.AddObject(o)
		}
	}
	out, err := Passes{&AddObject{Object: obj, As: as, Comments: comments}}.Process(in)
	v.Assert(err == nil, "C15: add_object returned an error")
	if err == nil {
		v.Assert(c15Compare(out, ref, ""), "C15: add_object: result differs from the documented effect (or something else changed)")
	}
}

func VerifC15DuplicateObject() {
	in := c15Schemas(c15Gen(0))
	src := ObjectReference{Package: v.Str("srcpkg", "p", "q"), Object: v.Str("src", "Foo", "foo", "Bar", "Nope")}
	as := ObjectReference{Package: v.Str("aspkg", "p", "q", "ext"), Object: v.Str("as", "Baz", "Bar")}
	v.Assume(!symir.Exists(in, as.Package, as.Object))
	var omit []string
	if v.Choose(2) == 1 {
		omit = []string{v.Str("omit", "a", "A", "nope")}
	}
	ref := v.Clone(in)
	// the source is looked up by its exact name ("if the source object isn't found, this pass does nothing")
	var source *ast.Object
	for _, s := range ref {
		if s.Package == src.Package {
			s.Objects.Iterate(func(name string, o ast.Object) {
				if name == src.Object {
					c := v.Clone(o)
					source = &c
				}
			})
		}
	}
	if source != nil {
		for _, s := range ref {
			if s.Package == as.Package {
				dup := *source
				dup.Name = as.Object
				dup.SelfRef = ast.RefType{ReferredPkg: as.Package, ReferredType: as.Object}
				if dup.Type.Kind == ast.KindStruct && len(omit) != 0 {
					var keep []ast.StructField
					for _, f := range dup.Type.Struct.Fields {
						if !strings.EqualFold(f.Name, omit[0]) {
							keep = append(keep, f)
						}
					}
					dup.Type.Struct.Fields = keep
				}
				s.AddObject(dup)
			}
		}
	}
	out, err := Passes{&DuplicateObject{Object: src, As: as, OmitFields: omit}}.Process(in)
	v.Assert(err == nil, "C15: duplicate_object returned an error")
	if err == nil {
		v.Assert(c15Compare(out, ref, ""), "C15: duplicate_object: result differs from the documented effect (or something else changed)")
		if source != nil {
			dup, ok := out.LocateObject(as.Package, as.Object)
			orig, ok2 := out.LocateObject(src.Package, src.Object)
			if ok && ok2 {
				v.Assert(v.SharedHeap(dup, orig) != "structure", "C15: duplicate_object: the copy shares structure with its source")
			}
		}
	}
}

func VerifC15RetypeObject() {
	in := c15Schemas(c15Gen(0))
	sel := c15Obj()
	as := ast.NewArray(ast.String())
	var comments []string
	if v.Bool("withcomments") {
		comments = []string{"retyped"}
	}
	ref := v.Clone(in)
	for _, s := range ref {
		c15Rebuild(s, func(o ast.Object) (ast.Object, bool) {
			if c15MatchObj(sel, s.Package, o) {
				o.Type = v.Clone(as)
				if comments != nil {
					o.Comments = comments
				}
			}
			return o, false
		})
	}
	out, err := Passes{&RetypeObject{Object: sel, As: as, Comments: comments}}.Process(in)
	v.Assert(err == nil, "C15: retype_object returned an error")
	if err == nil {
		v.Assert(c15Compare(out, ref, ""), "C15: retype_object: result differs from the documented effect (or something else changed)")
	}
}

func VerifC15RetypeField() {
	in := c15Schemas(c15Gen(0))
	sel := c15Field(c15Obj())
	as := ast.NewArray(ast.String())
	var comments []string
	if v.Bool("withcomments") {
		comments = []string{"retyped"}
	}
	ref := v.Clone(in)
	c15EditFields(ref, sel, func(fields []ast.StructField, match func(ast.StructField) bool) []ast.StructField {
		for i := range fields {
			if match(fields[i]) {
				fields[i].Type = v.Clone(as)
				if comments != nil {
					fields[i].Comments = comments
				}
				break // the first matching field
			}
		}
		return fields
	})
	out, err := Passes{&RetypeField{Field: sel, As: as, Comments: comments}}.Process(in)
	v.Assert(err == nil, "C15: retype_field returned an error")
	if err == nil {
		v.Assert(c15Compare(out, ref, ""), "C15: retype_field: result differs from the documented effect (or something else changed)")
	}
}

func c15SetRequired(required bool) {
	in := c15Schemas(c15Gen(0))
	sel := c15Field(c15Obj())
	ref := v.Clone(in)
	c15EditFields(ref, sel, func(fields []ast.StructField, match func(ast.StructField) bool) []ast.StructField {
		for i := range fields {
			if match(fields[i]) {
				fields[i].Required = required
				fields[i].Type.Nullable = !required
			}
		}
		return fields
	})
	var pass Pass = &FieldsSetRequired{Fields: []FieldReference{sel}}
	if !required {
		pass = &FieldsSetNotRequired{Fields: []FieldReference{sel}}
	}
	out, err := Passes{pass}.Process(in)
	v.Assert(err == nil, "C15: fields_set_(not_)required returned an error")
	if err == nil {
		v.Assert(c15Compare(out, ref, ""), "C15: fields_set_(not_)required: result differs from the documented effect (or something else changed)")
	}
}

func VerifC15FieldsSetRequired()    { c15SetRequired(true) }
func VerifC15FieldsSetNotRequired() { c15SetRequired(false) }

func VerifC15FieldsSetDefault() {
	in := c15Schemas(c15Gen(0))
	sel := c15Field(c15Obj())
	var value any = "dflt"
	switch v.Choose(3) {
	case 1:
		value = int64(42)
	case 2:
		value = []any{"x"}
	}
	ref := v.Clone(in)
	c15EditFields(ref, sel, func(fields []ast.StructField, match func(ast.StructField) bool) []ast.StructField {
		for i := range fields {
			if match(fields[i]) {
				fields[i].Type.Default = value
			}
		}
		return fields
	})
	out, err := Passes{&FieldsSetDefault{DefaultValues: map[FieldReference]any{sel: value}}}.Process(in)
	v.Assert(err == nil, "C15: fields_set_default returned an error")
	if err == nil {
		v.Assert(c15Compare(out, ref, ""), "C15: fields_set_default: result differs from the documented effect (or something else changed)")
	}
}

func VerifC15ReplaceReference() {
	g := c15Gen(0)
	g.Defaults = true
	in := c15Schemas(g)
	from := c15Obj()
	to := ObjectReference{Package: v.Str("topkg", "p", "q"), Object: v.Str("to", "Bar", "Baz")}
	ref := v.Clone(in)
	replaced := false
	for _, s := range ref {
		c15Rebuild(s, func(o ast.Object) (ast.Object, bool) {
			c15Walk(&o.Type, func(t *ast.Type) {
				if t.Kind == ast.KindRef && t.Ref.ReferredPkg == from.Package && strings.EqualFold(t.Ref.ReferredType, from.Object) {
					// only the reference changes: nullability, default and hints of the position are kept
					t.Ref.ReferredPkg = to.Package
					t.Ref.ReferredType = to.Object
					replaced = true
				}
			})
			return o, false
		})
	}
	out, err := Passes{&ReplaceReference{From: from, To: to}}.Process(in)
	v.Assert(err == nil, "C15: replace_reference returned an error")
	if err == nil {
		v.Assert(c15Compare(out, ref, ""), "C15: replace_reference: result differs from the documented effect (or something else changed)")
	}
	_ = replaced
}

func VerifC15ConstantToEnum() {
	g := c15Gen(symir.KConstScalar)
	g.Nullable = false
	in := c15Schemas(g)
	sel := c15Obj()
	ref := v.Clone(in)
	for _, s := range ref {
		c15Rebuild(s, func(o ast.Object) (ast.Object, bool) {
			if c15MatchObj(sel, s.Package, o) && o.Type.Kind == ast.KindScalar && o.Type.Scalar.Value != nil && o.Type.Scalar.ScalarKind == ast.KindString {
				val := o.Type.Scalar.Value.(string)
				o.Type = ast.NewEnum([]ast.EnumValue{{Type: ast.String(), Name: val, Value: val}})
			}
			return o, false
		})
	}
	out, err := Passes{&ConstantToEnum{Objects: []ObjectReference{sel}}}.Process(in)
	v.Assert(err == nil, "C15: constant_to_enum returned an error")
	if err == nil {
		v.Assert(c15Compare(out, ref, ""), "C15: constant_to_enum: result differs from the documented effect (or something else changed)")
	}
}

func VerifC15TrimEnumValues() {
	g := c15Gen(symir.KEnum)
	g.Leaves = symir.KEnum
	g.Kinds = symir.KEnum | symir.KArray | symir.KMap | symir.KStruct
	g.Nullable, g.Required = false, false
	g.Width = 1
	p := ast.NewSchema("p", ast.SchemaMeta{})
	p.AddObject(ast.NewObject("p", "Foo", g.Type(1)))
	p.AddObject(ast.NewObject("p", "Bar", ast.String()))
	in := ast.Schemas{p}
	ref := v.Clone(in)
	for _, s := range ref {
		c15Rebuild(s, func(o ast.Object) (ast.Object, bool) {
			c15Walk(&o.Type, func(t *ast.Type) {
				if t.Kind == ast.KindEnum {
					for i, m := range t.Enum.Values {
						if sv, ok := m.Value.(string); ok {
							t.Enum.Values[i].Value = strings.TrimSpace(sv)
						}
					}
				}
			})
			return o, false
		})
	}
	out, err := Passes{&TrimEnumValues{}}.Process(in)
	v.Assert(err == nil, "C15: trim_enum_values returned an error")
	if err == nil {
		v.Assert(c15Compare(out, ref, ""), "C15: trim_enum_values: result differs from the documented effect (or something else changed)")
	}
}

func VerifC15HintObject() {
	in := c15Schemas(c15Gen(0))
	// objects may already carry hints (set by a parser, an earlier pass, an earlier hint_object): they are kept
	if v.Bool("existinghints") {
		for _, s := range in {
			c15Rebuild(s, func(o ast.Object) (ast.Object, bool) {
				if o.Type.Hints == nil {
					o.Type.Hints = ast.JenniesHints{}
				}
				o.Type.Hints["already"] = "there"
				return o, false
			})
		}
	}
	sel := c15Obj()
	hints := ast.JenniesHints{"k": v.Str("hint", "x", "y")}
	ref := v.Clone(in)
	for _, s := range ref {
		c15Rebuild(s, func(o ast.Object) (ast.Object, bool) {
			if c15MatchObj(sel, s.Package, o) {
				if o.Type.Hints == nil {
					o.Type.Hints = ast.JenniesHints{}
				}
				o.Type.Hints["k"] = hints["k"]
			}
			return o, false
		})
	}
	out, err := Passes{&HintObject{Object: sel, Hints: hints}}.Process(in)
	v.Assert(err == nil, "C15: hint_object returned an error")
	if err == nil {
		v.Assert(c15Compare(out, ref, ""), "C15: hint_object: result differs from the documented effect (or something else changed)")
	}
}

func VerifC15SchemaSetIdentifier() {
	in := c15Schemas(c15Gen(0))
	pkg := v.Str("pkg", "p", "q", "ext")
	ref := v.Clone(in)
	for _, s := range ref {
		if s.Package == pkg {
			s.Metadata.Identifier = "ident"
		}
	}
	out, err := Passes{&SchemaSetIdentifier{Package: pkg, Identifier: "ident"}}.Process(in)
	v.Assert(err == nil, "C15: schema_set_identifier returned an error")
	if err == nil {
		v.Assert(c15Compare(out, ref, ""), "C15: schema_set_identifier: result differs from the documented effect (or something else changed)")
	}
}

func VerifC15SchemaSetEntryPoint() {
	in := c15Schemas(c15Gen(0))
	pkg := v.Str("pkg", "p", "q", "ext")
	ep := v.Str("entrypoint", "Foo", "foo", "Nope")
	ref := v.Clone(in)
	for _, s := range ref {
		if s.Package == pkg {
			s.EntryPoint = ep
			s.EntryPointType = ast.NewRef(pkg, ep)
		}
	}
	out, err := Passes{&SchemaSetEntrypoint{Package: pkg, EntryPoint: ep}}.Process(in)
	v.Assert(err == nil, "C15: schema_set_entry_point returned an error")
	if err == nil {
		v.Assert(c15Compare(out, ref, ""), "C15: schema_set_entry_point: result differs from the documented effect (or something else changed)")
	}
}

func VerifC15PrefixObjectNames() {
	g := c15Gen(symir.KConstRef)
	in := c15Schemas(g)
	prefix := v.Str("prefix", "X", "")
	ref := v.Clone(in)
	if prefix != "" {
		for _, s := range ref {
			c15Rebuild(s, func(o ast.Object) (ast.Object, bool) {
				o.Name = prefix + o.Name
				o.SelfRef.ReferredType = o.Name
				c15Walk(&o.Type, func(t *ast.Type) {
					switch t.Kind {
					case ast.KindRef:
						t.Ref.ReferredType = prefix + t.Ref.ReferredType
					case ast.KindConstantRef:
						t.ConstantReference.ReferredType = prefix + t.ConstantReference.ReferredType
					}
				})
				return o, false
			})
		}
	}
	out, err := Passes{&PrefixObjectNames{Prefix: prefix}}.Process(in)
	v.Assert(err == nil, "C15: name prefixing returned an error")
	if err == nil {
		v.Assert(c15Compare(out, ref, ""), "C15: name prefixing: result differs from the documented effect (or something else changed)")
	}
}

func VerifC15AppendComment() {
	in := c15Schemas(c15Gen(0))
	ref := v.Clone(in)
	for _, s := range ref {
		c15Rebuild(s, func(o ast.Object) (ast.Object, bool) {
			o.Comments = append(append([]string{}, o.Comments...), "appended")
			return o, false
		})
	}
	out, err := Passes{&AppendCommentObjects{Comment: "appended"}}.Process(in)
	v.Assert(err == nil, "C15: comment appending returned an error")
	if err == nil {
		v.Assert(c15Compare(out, ref, ""), "C15: comment appending: result differs from the documented effect (or something else changed)")
	}
}

// VerifC10ConstantUnionDefault (C10): `"auto" | string` (either order; string, int64 or float64; as an object,
// a field, array elements) handled by disjunction_with_constant_to_default becomes the plain scalar whose
// default is that constant — the value, with its dynamic type, must not be altered, re-typed or dropped.
func VerifC10ConstantUnionDefault() {
	kind := ast.ScalarKind(v.Str("kind", "string", "int64", "float64"))
	var value any
	switch kind {
	case ast.KindString:
		value = v.Str("const", "auto", "")
	case ast.KindInt64:
		value = int64(v.Int("constint", 0, 3))
	default:
		value = float64(v.Int("constfloat", 0, 3))
	}
	constant := ast.NewScalar(kind, ast.Value(value))
	plain := ast.NewScalar(kind)
	var u ast.Type
	if v.Bool("constantfirst") {
		u = ast.NewDisjunction(ast.Types{constant, plain})
	} else {
		u = ast.NewDisjunction(ast.Types{plain, constant})
	}
	p := ast.NewSchema("p", ast.SchemaMeta{})
	where := v.Choose(3)
	switch where {
	case 0:
		p.AddObject(ast.NewObject("p", "Foo", u))
	case 1:
		f := ast.NewStructField("mode", u)
		f.Required = v.Bool("required")
		p.AddObject(ast.NewObject("p", "Foo", ast.NewStruct(f)))
	default:
		p.AddObject(ast.NewObject("p", "Foo", ast.NewArray(u)))
	}
	out, err := Passes{&DisjunctionWithConstantToDefault{}}.Process(ast.Schemas{p})
	v.Assert(err == nil, "C10: disjunction_with_constant_to_default returned an error")
	if err != nil {
		return
	}
	foo, _ := out.LocateObject("p", "Foo")
	got := foo.Type
	switch where {
	case 1:
		got = foo.Type.Struct.Fields[0].Type
	case 2:
		got = foo.Type.Array.ValueType
	}
	v.Assert(got.Kind == ast.KindScalar && got.Scalar.ScalarKind == kind && got.Scalar.Value == nil, "C10: a union of a constant and its type did not become the plain scalar")
	v.Assert(v.DeepEqual(got.Default, value), "C10: the constant of a `constant | type` union is not the default of the resulting scalar (altered, re-typed or dropped)")
}
