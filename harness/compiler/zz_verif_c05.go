package compiler

import (
	"strings"

	"github.com/grafana/cog/internal/ast"
	v "github.com/grafana/cog/internal/zzverif"
	"github.com/grafana/cog/internal/zzverif/symir"
)

// ---------------------------------------------------------------- C05: every reference resolves
//
// Name-changing transformations keep every reference resolving.

func c05Gen() *symir.Gen {
	g := symir.Default()
	g.Pkgs = []string{"p", "q"}
	g.RefPkgs = []string{"p", "q"}
	g.Names = []string{"Foo", "foo", "Bar"}
	g.Leaves = symir.KScalar | symir.KRef | symir.KConstRef
	g.Kinds = symir.KScalar | symir.KRef | symir.KConstRef | symir.KArray | symir.KMap | symir.KStruct | symir.KDisjunction
	g.Scalars = []string{"string"}
	g.Width = 2
	return g
}

// c05Schemas: package p with two objects (main object of depth 1, second a struct of a leaf) and
// package q with one object; references may point into p or q.
func c05Schemas(g *symir.Gen) ast.Schemas {
	depth := 1
	p := g.Schema("p", depth, 0)
	q := g.Schema("q", 0)
	if v.Bool("entrypoint") {
		p.EntryPoint = g.Name()
		p.EntryPointType = ast.NewRef("p", p.EntryPoint)
	}
	return ast.Schemas{p, q}
}

// VerifC05Rename: rename_object keeps every reference resolving.
func VerifC05Rename() {
	g := c05Gen()
	in := c05Schemas(g)
	v.Assume(symir.AllResolve(in))
	from := ObjectReference{Package: v.Str("frompkg", "p", "q"), Object: v.Str("from", "Foo", "foo", "Bar", "FOO")}
	to := v.Str("to", "Baz", "Bar")
	// renaming onto an existing name, or selecting two case-variant objects at once, is outside the claim
	v.Assume(!symir.Exists(in, from.Package, to))
	v.Assume(c05CountMatching(in, from) <= 1)
	v.Excuse("rename-from-differs-in-case", c05MatchesOnlyUpToCase(in, from))
	v.Excuse("rename-target-constant-ref", c05HasConstantRefTo(in, from))
	v.Excuse("rename-entrypoint", c05EntryPointMatches(in, from))
	out, err := Passes{&RenameObject{From: from, To: to}}.Process(in)
	v.Assert(err == nil, "rename_object returned an error")
	if err == nil {
		v.Assert(symir.AllResolve(out), "dangling reference after rename_object")
	}
}

func c05CountMatching(schemas ast.Schemas, ref ObjectReference) int {
	n := 0
	for _, s := range schemas {
		s.Objects.Iterate(func(_ string, o ast.Object) {
			if ref.Matches(o) {
				n++
			}
		})
	}
	return n
}

// c05MatchesOnlyUpToCase: the selected object exists under a name that differs in case from `from`.
func c05MatchesOnlyUpToCase(schemas ast.Schemas, ref ObjectReference) bool {
	r := false
	for _, s := range schemas {
		samePkg := s.Package == ref.Package
		s.Objects.Iterate(func(name string, _ ast.Object) {
			r = v.Or(r, v.And(samePkg, v.And(strings.EqualFold(name, ref.Object), name != ref.Object)))
		})
	}
	return r
}

func c05HasConstantRefTo(schemas ast.Schemas, ref ObjectReference) bool {
	r := false
	for _, pos := range symir.CollectSchemas(schemas) {
		if strings.HasSuffix(pos.Where, ":constant_ref") {
			r = v.Or(r, v.And(pos.Pkg == ref.Package, strings.EqualFold(pos.Name, ref.Object)))
		}
	}
	return r
}

func c05EntryPointMatches(schemas ast.Schemas, ref ObjectReference) bool {
	r := false
	for _, s := range schemas {
		if s.EntryPoint != "" {
			r = v.Or(r, v.And(s.Package == ref.Package, strings.EqualFold(s.EntryPoint, ref.Object)))
		}
	}
	return r
}

// VerifC05Prefix: the library's name prefixing keeps every reference resolving.
func VerifC05Prefix() {
	g := c05Gen()
	in := c05Schemas(g)
	v.Assume(symir.AllResolve(in))
	prefix := v.Str("prefix", "X", "")
	hasEntryPoint := false
	for _, s := range in {
		hasEntryPoint = hasEntryPoint || s.EntryPoint != ""
	}
	v.Excuse("prefix-entrypoint-string", hasEntryPoint)
	out, err := Passes{&PrefixObjectNames{Prefix: prefix}}.Process(in)
	v.Assert(err == nil, "name prefixing returned an error")
	if err == nil {
		v.Assert(symir.AllResolve(out), "dangling reference after name prefixing")
	}
}

// VerifC05Duplicate: duplicate_object keeps every reference resolving (the copy's
// references included).
func VerifC05Duplicate() {
	g := c05Gen()
	in := c05Schemas(g)
	v.Assume(symir.AllResolve(in))
	src := ObjectReference{Package: v.Str("srcpkg", "p", "q"), Object: g.Name()}
	as := ObjectReference{Package: v.Str("aspkg", "p", "q", "ext"), Object: v.Str("as", "Baz", "Bar", "foo")}
	v.Assume(!symir.Exists(in, as.Package, as.Object))
	var omit []string
	if v.Choose(2) == 1 {
		omit = []string{v.Str("omit", "a", "A", "b")}
	}
	out, err := Passes{&DuplicateObject{Object: src, As: as, OmitFields: omit}}.Process(in)
	v.Assert(err == nil, "duplicate_object returned an error")
	if err == nil {
		v.Assert(symir.AllResolve(out), "dangling reference after duplicate_object")
	}
}

// VerifC05Unspec: unspec keeps every reference resolving.
func VerifC05Unspec() {
	g := c05Gen()
	g.Names = []string{"spec", "Spec", "metadata", "Foo"}
	g.Pkgs = []string{"p"}
	g.RefPkgs = []string{"p"}
	p := g.Schema("p", 1, 0)
	if v.Bool("identifier") {
		p.Metadata.Identifier = v.Str("identifier", "Ident", "Foo")
	}
	in := ast.Schemas{p}
	v.Assume(symir.AllResolve(in))
	// a reference to the envelope objects themselves
	refsSpec, refsMeta := false, false
	for _, pos := range symir.CollectSchemas(in) {
		refsSpec = v.Or(refsSpec, strings.EqualFold(pos.Name, "spec"))
		refsMeta = v.Or(refsMeta, strings.EqualFold(pos.Name, "metadata"))
	}
	v.Excuse("unspec-reference-to-spec", refsSpec)
	v.Excuse("unspec-reference-to-metadata", refsMeta)
	out, err := Passes{&Unspec{}}.Process(in)
	v.Assert(err == nil, "unspec returned an error")
	if err == nil {
		v.Assert(symir.AllResolve(out), "dangling reference after unspec")
	}
}

// VerifC05ReplaceReference: replace_reference towards an existing object keeps every reference resolving.
func VerifC05ReplaceReference() {
	g := c05Gen()
	in := c05Schemas(g)
	v.Assume(symir.AllResolve(in))
	from := ObjectReference{Package: v.Str("frompkg", "p", "q"), Object: v.Str("from", "Foo", "foo", "Bar", "FOO")}
	to := ObjectReference{Package: v.Str("topkg", "p", "q"), Object: g.Name()}
	v.Assume(symir.Exists(in, to.Package, to.Object))
	out, err := Passes{&ReplaceReference{From: from, To: to}}.Process(in)
	v.Assert(err == nil, "replace_reference returned an error")
	if err == nil {
		v.Assert(symir.AllResolve(out), "dangling reference after replace_reference")
		// and no reference to `from` is left where one was replaced
		for _, pos := range symir.CollectSchemas(out) {
			if strings.HasSuffix(pos.Where, ":ref") && !strings.Contains(pos.Where, "entrypoint") {
				v.Assert(v.Or(!from.MatchesRef(ast.RefType{ReferredPkg: pos.Pkg, ReferredType: pos.Name}),
					to.MatchesRef(ast.RefType{ReferredPkg: pos.Pkg, ReferredType: pos.Name})), "a reference to `from` survives replace_reference")
			}
		}
	}
}

// ---------------------------------------------------------------- allowed_objects

// c05Reachable computes (without the code under test) the closure of the listed
// objects under "references", over every naming position.
func c05Reachable(schemas ast.Schemas, listed []ObjectReference) map[string]bool {
	keep := map[string]bool{}
	var work []ast.Object
	for _, l := range listed {
		if o, ok := schemas.LocateObject(l.Package, l.Object); ok {
			work = append(work, o)
		}
	}
	for len(work) > 0 {
		o := work[len(work)-1]
		work = work[:len(work)-1]
		k := o.SelfRef.String()
		if keep[k] {
			continue
		}
		keep[k] = true
		for _, pos := range symir.Collect(o.Type, "", nil) {
			if t, ok := schemas.LocateObject(pos.Pkg, pos.Name); ok {
				work = append(work, t)
			}
		}
	}
	return keep
}

// VerifC05AllowedObjects: restricting an input keeps exactly the listed objects plus
// everything they reference, directly or indirectly.
func VerifC05AllowedObjects() {
	g := c05Gen()
	g.Pkgs = []string{"p"}
	g.RefPkgs = []string{"p"}
	g.Names = []string{"Foo", "foo", "Bar"}
	var p *ast.Schema
	if v.Tier() == 0 {
		g.Kinds = symir.KRef | symir.KConstRef | symir.KArray | symir.KStruct | symir.KDisjunction
		p = g.Schema("p", 1, 0, 0)
	} else {
		p = g.Schema("p", 1, 1, 0)
	}
	in := ast.Schemas{p}
	v.Assume(symir.AllResolve(in))
	listed := []ObjectReference{{Package: "p", Object: g.Name()}}
	hasConstRef := false
	for _, pos := range symir.CollectSchemas(in) {
		hasConstRef = hasConstRef || strings.HasSuffix(pos.Where, ":constant_ref")
	}
	v.Excuse("allowed-objects-constant-ref", hasConstRef)
	want := c05Reachable(in, listed)
	out, err := Passes{&FilterSchemas{AllowedObjects: listed}}.Process(in)
	v.Assert(err == nil, "allowed_objects filter returned an error")
	if err != nil {
		return
	}
	got := map[string]bool{}
	for _, s := range out {
		s.Objects.Iterate(func(_ string, o ast.Object) { got[o.SelfRef.String()] = true })
	}
	for k := range want {
		v.Assert(got[k], "allowed_objects dropped a listed or referenced object")
	}
	for k := range got {
		v.Assert(want[k], "allowed_objects kept an object that is neither listed nor referenced")
	}
	v.Assert(symir.AllResolve(out), "dangling reference after allowed_objects filter")
}
