package compiler

import (
	"github.com/grafana/cog/internal/ast"
	v "github.com/grafana/cog/internal/zzverif"
	"github.com/grafana/cog/internal/zzverif/symir"
)

// c07Pass picks one user-configurable transformation with symbolic parameters.
func c07Pass() Pass {
	obj := ObjectReference{Package: v.Str("pkg", "p", "q"), Object: v.Str("obj", "Foo", "foo", "Bar")}
	field := FieldReference{Package: obj.Package, Object: obj.Object, Field: v.Str("fld", "a", "A", "b")}
	as := ast.NewStruct(ast.NewStructField("n", ast.String()))
	switch v.Choose(27) {
	// transformations reachable only through schema-transformation YAML / used by some chains
	case 18:
		return &DisjunctionWithConstantToDefault{}
	case 19:
		return &NameAnonymousStruct{Field: field, As: "Named"}
	case 20:
		return &AnonymousStructsToNamed{}
	case 21:
		return &DisjunctionToType{}
	case 22:
		return &DisjunctionOfAnonymousStructsToExplicit{}
	case 23:
		return &DisjunctionInferMapping{}
	case 24:
		return &InferEntrypoint{}
	case 25:
		return &DataqueryIdentification{}
	case 26:
		return &Unspec{}
	case 0:
		return &RenameObject{From: obj, To: "Baz"}
	case 1:
		return &Omit{Objects: []ObjectReference{obj}}
	case 2:
		return &OmitFields{Fields: []FieldReference{field}}
	case 3:
		return &AddFields{Object: obj, Fields: []ast.StructField{ast.NewStructField("extra", ast.String())}}
	case 4:
		return &AddObject{Object: ObjectReference{Package: obj.Package, Object: "Baz"}, As: as, Comments: []string{"c"}}
	case 5:
		return &DuplicateObject{Object: obj, As: ObjectReference{Package: v.Str("aspkg", "p", "q"), Object: "Baz"}, OmitFields: []string{"a"}}
	case 6:
		return &RetypeObject{Object: obj, As: as, Comments: []string{"c"}}
	case 7:
		return &RetypeField{Field: field, As: as, Comments: []string{"c"}}
	case 8:
		return &FieldsSetRequired{Fields: []FieldReference{field}}
	case 9:
		return &FieldsSetNotRequired{Fields: []FieldReference{field}}
	case 10:
		return &FieldsSetDefault{DefaultValues: map[FieldReference]any{field: "dflt"}}
	case 11:
		return &ReplaceReference{From: obj, To: ObjectReference{Package: "p", Object: "Bar"}}
	case 12:
		return &ConstantToEnum{Objects: []ObjectReference{obj}}
	case 13:
		return &TrimEnumValues{}
	case 14:
		return &HintObject{Object: obj, Hints: ast.JenniesHints{"h": "x"}}
	case 15:
		return &SchemaSetIdentifier{Package: obj.Package, Identifier: "ident"}
	case 16:
		return &SchemaSetEntrypoint{Package: obj.Package, EntryPoint: obj.Object}
	default:
		if v.Choose(2) == 0 {
			return &PrefixObjectNames{Prefix: "X"}
		}
		return &AppendCommentObjects{Comment: "c"}
	}
}

// VerifC07UserPasses: applying a transformation (through Passes.Process, as the
// pipeline does) never modifies the schemas it was handed: every heap object
// reachable from the input is frozen; a store into one is the violation.
func VerifC07UserPasses() {
	g := c05Gen()
	g.Leaves |= 0
	in := c05Schemas(g)
	pass := c07Pass()
	v.Observe(in)
	v.Excuse("alias-cycle", v.Or(symir.AliasCycle(in), symir.LocalNameCycle(in)))
	v.Freeze(in)
	_, _ = Passes{pass}.Process(in)
	v.CheckFrozen()
	v.Reach("pass ran on frozen input")
}
