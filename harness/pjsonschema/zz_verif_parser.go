package jsonschema

import (
	"encoding/json"

	"github.com/grafana/cog/internal/ast"
	"github.com/grafana/cog/internal/orderedmap"
	v "github.com/grafana/cog/internal/zzverif"
	"github.com/grafana/cog/internal/zzverif/symir"
	schemaparser "github.com/santhosh-tekuri/jsonschema/v5"
)

// ---------------------------------------------------------------- the JSON Schema walker on symbolic library structs
// (C05: every reference of the parsed IR resolves; C03: independent of the library's map order; C04: no panic)

func jsDefinitions() map[string]*schemaparser.Schema {
	// two definitions whose names differ only in letter case, plus one more in the thorough tier
	defs := map[string]*schemaparser.Schema{}
	st := c10New()
	st.Location = "schema#/definitions/Status"
	st.Types = []string{"object"}
	inner := c10New()
	inner.Types = []string{"string"}
	st.Properties = map[string]*schemaparser.Schema{"code": inner}
	defs["Status"] = st
	lower := c10New()
	lower.Location = "schema#/definitions/status"
	lower.Types = []string{"string"}
	defs["status"] = lower
	return defs
}

func jsLeaf(defs map[string]*schemaparser.Schema) *schemaparser.Schema {
	s := c10New()
	switch v.Choose(7) {
	case 0:
		s.Types = []string{"string"}
		s.Format = v.Str("format", "", "date-time")
	case 1:
		s.Types = []string{v.Str("numtype", "integer", "number")}
		if v.Choose(2) == 1 {
			s.Default = json.Number("3")
		}
	case 2: // a reference to one of the definitions
		s.Ref = defs[v.Str("refname", "Status", "status")]
	case 3:
		s.Types = []string{"array"}
		switch v.Choose(3) {
		case 1:
			items := c10New()
			items.Ref = defs[v.Str("itemref", "Status", "status")]
			s.Items = items
		case 2: // draft-07 tuple form: `items` is a list of schemas
			it := c10New()
			it.Types = []string{"string"}
			s.Items = []*schemaparser.Schema{it}
		}
	case 4:
		s.Enum = []any{"a", "b"}
		s.Types = []string{"string"}
	case 5: // oneOf of a reference and a scalar
		a := c10New()
		a.Ref = defs[v.Str("branchref", "Status", "status")]
		b := c10New()
		b.Types = []string{"boolean"}
		s.OneOf = []*schemaparser.Schema{a, b}
	default: // several types at once
		s.Types = []string{"string", "null"}
	}
	return s
}

func jsParse(root *schemaparser.Schema) (*ast.Schema, error) {
	// what GenerateAST does once the document is compiled
	g := &generator{seen: map[string]struct{}{}, schema: ast.NewSchema("p", ast.SchemaMeta{})}
	if err := g.declareDefinition("Root", root); err != nil {
		return nil, err
	}
	g.schema.EntryPoint = "Root"
	g.schema.EntryPointType = g.schema.Objects.Get("Root").SelfRef.AsType()
	g.schema.Objects.Sort(orderedmap.SortStrings)
	return g.schema, nil
}

func VerifParserJSONSchema() {
	defs := jsDefinitions()
	root := c10New()
	root.Types = []string{"object"}
	root.Properties = map[string]*schemaparser.Schema{"alpha": jsLeaf(defs), "Alpha": jsLeaf(defs)}
	root.Required = []string{"alpha"}
	v.SymOrder(true)
	s1, err1 := jsParse(root)
	s2, err2 := jsParse(root)
	v.SymOrder(false)
	v.Assert((err1 == nil) == (err2 == nil), "C03: the JSON Schema parser fails for one map iteration order and succeeds for another")
	if err1 != nil || err2 != nil {
		return
	}
	v.Observe(s1)
	v.Assert(v.DeepEqualNilEmpty(s1, s2), "C03: the IR parsed from a JSON Schema depends on map iteration order")
	v.Assert(symir.AllResolve(ast.Schemas{s1}), "C05: a reference of the IR parsed from a JSON Schema does not resolve")
}
