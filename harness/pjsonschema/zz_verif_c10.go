package jsonschema

import (
	"encoding/json"

	"github.com/grafana/cog/internal/ast"
	"github.com/grafana/cog/internal/jennies/golang"
	"github.com/grafana/cog/internal/jennies/python"
	v "github.com/grafana/cog/internal/zzverif"
	schemaparser "github.com/santhosh-tekuri/jsonschema/v5"
)

// ---------------------------------------------------------------- C10 (IR level): defaults and constants
//
// The JSON Schema walker is driven with bounded symbolic instances of the library's
// compiled-schema struct (what santhosh-tekuri/jsonschema hands to cog: numbers are
// json.Number). Defaults and constants must reach the IR — and the end of the Go and Python
// chains — with the same value and in canonical dynamic type
// (bool / int64 / float64 / string / []any / map[string]any), never re-typed or dropped.

func c10New() *schemaparser.Schema {
	return &schemaparser.Schema{MinProperties: -1, MaxProperties: -1, MinItems: -1, MaxItems: -1, MinContains: 1, MaxContains: -1, MinLength: -1, MaxLength: -1}
}

// c10Canonical: the dynamic type a generator can format (no json.Number anywhere).
func c10Canonical(x any) bool {
	switch val := x.(type) {
	case nil, bool, int64, float64, string:
		return true
	case []any:
		for _, e := range val {
			if !c10Canonical(e) {
				return false
			}
		}
		return true
	case map[string]any:
		for _, e := range val {
			if !c10Canonical(e) {
				return false
			}
		}
		return true
	}
	return false
}

type c10Expect struct {
	field      string
	hasDefault bool
	def        any // expected default, canonical
	hasConst   bool
	constant   any
}

// c10Property builds one property schema with a default or a constant.
func c10Property(name string) (*schemaparser.Schema, c10Expect) {
	s := c10New()
	e := c10Expect{field: name}
	switch v.Choose(7) {
	case 0: // string with default
		s.Types = []string{"string"}
		if v.Bool("hasdefault") {
			d := v.Str("strdefault", "x", "")
			s.Default = d
			e.hasDefault, e.def = true, d
		}
	case 1: // integer with default
		s.Types = []string{"integer"}
		if v.Bool("hasdefault") {
			switch v.Choose(4) {
			case 3: // beyond float64's 53 bits of precision
				s.Default, e.def = json.Number("9007199254740993"), int64(9007199254740993)
			case 0:
				s.Default, e.def = json.Number("42"), int64(42)
			case 1:
				s.Default, e.def = json.Number("0"), int64(0)
			default:
				s.Default, e.def = json.Number("-7"), int64(-7)
			}
			e.hasDefault = true
		}
	case 2: // number with default
		s.Types = []string{"number"}
		if v.Bool("hasdefault") {
			s.Default, e.def = json.Number("1.5"), float64(1.5)
			e.hasDefault = true
		}
	case 3: // boolean with default
		s.Types = []string{"boolean"}
		if v.Bool("hasdefault") {
			d := v.Bool("booldefault")
			s.Default = d
			e.hasDefault, e.def = true, d
		}
	case 4: // array of integers with a default
		s.Types = []string{"array"}
		items := c10New()
		items.Types = []string{"integer"}
		s.Items = items
		if v.Bool("hasdefault") {
			s.Default = []any{json.Number("1"), json.Number("2")}
			e.hasDefault, e.def = true, []any{int64(1), int64(2)}
		}
	case 5: // string enum with a default
		s.Enum = []any{"light", "dark"}
		s.Types = []string{"string"}
		if v.Bool("hasdefault") {
			s.Default = "dark"
			e.hasDefault, e.def = true, "dark"
		}
	default: // constants
		switch v.Choose(3) {
		case 0:
			s.Types = []string{"string"}
			s.Constant = []any{"k"}
			e.hasConst, e.constant = true, "k"
		case 1:
			s.Types = []string{"integer"}
			s.Constant = []any{json.Number("2")}
			e.hasConst, e.constant = true, int64(2)
		default:
			s.Constant = []any{json.Number("2.5")} // untyped constant
			e.hasConst, e.constant = true, float64(2.5)
		}
	}
	return s, e
}

func c10Check(t ast.Type, e c10Expect, where string) {
	if e.hasDefault {
		v.Excuse("array-default-elements", e.field != "" && t.Kind == ast.KindArray)
		v.Excuse("enum-default", t.Kind == ast.KindEnum)
		v.Assert(t.Default != nil, "C10: a default declared by the schema is dropped")
		if t.Default != nil {
			v.Assert(c10Canonical(t.Default), "C10: a default is re-typed (not bool/int64/float64/string/[]any/map[string]any)")
			v.Assert(v.DeepEqual(t.Default, e.def), "C10: a default is altered")
		}
	}
	if e.hasConst {
		v.Assert(t.Kind == ast.KindScalar && t.Scalar != nil && t.Scalar.Value != nil, "C10: a constant declared by the schema is dropped")
		if t.Kind == ast.KindScalar && t.Scalar != nil && t.Scalar.Value != nil {
			v.Assert(c10Canonical(t.Scalar.Value), "C10: a constant is re-typed")
			v.Assert(v.DeepEqual(t.Scalar.Value, e.constant), "C10: a constant is altered")
		}
	}
}

// VerifC10JSONSchemaDefaults: walker, then the Go and Python chains.
func VerifC10JSONSchemaDefaults() {
	root := c10New()
	root.Types = []string{"object"}
	root.Properties = map[string]*schemaparser.Schema{}
	var expects []c10Expect
	n := 1
	if v.Tier() > 0 {
		n = 1 + v.Choose(3)
	}
	for i := 0; i < n; i++ {
		name := []string{"alpha", "beta", "gamma"}[i]
		p, e := c10Property(name)
		root.Properties[name] = p
		expects = append(expects, e)
		if v.Bool("required") {
			root.Required = append(root.Required, name)
		}
	}
	g := &generator{seen: map[string]struct{}{}, schema: ast.NewSchema("p", ast.SchemaMeta{})}
	err := g.declareDefinition("Root", root)
	v.Assert(err == nil, "C10: the JSON Schema walker rejects a schema with defaults/constants")
	if err != nil {
		return
	}
	check := func(schemas ast.Schemas, stage string) {
		obj, ok := schemas.LocateObject("p", "Root")
		v.Assert(ok && obj.Type.Kind == ast.KindStruct, "C10: the root object is lost")
		if !ok || obj.Type.Kind != ast.KindStruct {
			return
		}
		for _, e := range expects {
			f, found := obj.Type.Struct.FieldByName(e.field)
			v.Assert(found, "C10: a property is lost")
			if found {
				t := f.Type
				// a chain may move an anonymous type behind a reference
				if t.Kind == ast.KindRef {
					if target, ok := schemas.LocateObject(t.Ref.ReferredPkg, t.Ref.ReferredType); ok {
						saved := t.Default
						t = target.Type
						if t.Default == nil {
							t.Default = saved
						}
					}
				}
				c10Check(t, e, stage)
			}
		}
	}
	in := ast.Schemas{g.schema}
	v.Observe(in)
	check(in, "parser")
	if out, err := (&golang.Language{}).CompilerPasses().Process(in); err == nil {
		check(out, "go chain")
	}
	if out, err := (&python.Language{}).CompilerPasses().Process(in); err == nil {
		check(out, "python chain")
	}
}
