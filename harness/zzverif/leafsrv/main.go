// Command leafsrv evaluates cog's pure string helpers natively for the symbolic
// engine (regexp and x/text/cases underneath are outside any encoder's reach).
// It is compiled from /repo's current tree through an overlay on every run.
package main

import (
	"bufio"
	"fmt"
	"os"
	"strconv"
	"strings"

	"github.com/grafana/cog/internal/tools"
)

var funcs = map[string]func(string) string{
	"UpperSnakeCase": tools.UpperSnakeCase,
	"SnakeCase":      tools.SnakeCase,
	"UpperCamelCase": tools.UpperCamelCase,
	"LowerCamelCase": tools.LowerCamelCase,
	"CleanupNames":   tools.CleanupNames,
	"Singularize":    tools.Singularize,
}

func main() {
	in := bufio.NewReader(os.Stdin)
	out := bufio.NewWriter(os.Stdout)
	for {
		line, err := in.ReadString('\n')
		if err != nil {
			return
		}
		name, q, _ := strings.Cut(strings.TrimRight(line, "\n"), "\t")
		arg, _ := strconv.Unquote(q)
		f, ok := funcs[name]
		if !ok {
			fmt.Fprintln(out, strconv.Quote("?unknown leaf "+name))
		} else {
			fmt.Fprintln(out, strconv.Quote(f(arg)))
		}
		out.Flush()
	}
}
