// Package zzverif is the harness API. It is injected into /repo as a virtual
// package (go -overlay / go/packages Overlay) and never written there.
//
// Under the symbolic engine every function below is intercepted (the bodies are
// never interpreted). Compiled natively the same functions replay one concrete
// assignment, recorded by the engine from a solver model, against the real code.
package zzverif

import (
	"encoding/json"
	"fmt"
	"math"
	"os"
	"reflect"
	"runtime/debug"
	"sort"
	"strconv"
	"strings"
)

type draw struct {
	Kind string          `json:"kind"`
	Name string          `json:"name"`
	Alts []string        `json:"alts"`
	Bits int             `json:"bits"`
	Val  json.RawMessage `json:"val"`
}

type replayFile struct {
	Entry string `json:"entry"`
	Tier  int    `json:"tier"`
	Draws []draw `json:"draws"`
}

var (
	rp       *replayFile
	rpPos    int
	failed   []string
	excused  []string
	frozen   []frozenRec
	astrSeen = map[string]string{}
)

type frozenRec struct {
	v    any
	dump string
}

func load() {
	if rp != nil {
		return
	}
	path := os.Getenv("VERIF_REPLAY")
	if path == "" {
		panic("zzverif: VERIF_REPLAY not set (native run needs a recorded assignment)")
	}
	raw, err := os.ReadFile(path)
	if err != nil {
		panic(err)
	}
	rp = &replayFile{}
	if err := json.Unmarshal(raw, rp); err != nil {
		panic(err)
	}
}

func next(kind string) draw {
	load()
	for rpPos < len(rp.Draws) && rp.Draws[rpPos].Kind == "order" {
		rpPos++ // map-order draws cannot be imposed on the native runtime
	}
	if rpPos >= len(rp.Draws) {
		panic(fmt.Sprintf("zzverif: replay desync: out of draws (wanted %s)", kind))
	}
	d := rp.Draws[rpPos]
	rpPos++
	if d.Kind != kind && !(kind == "int" && d.Kind == "uint") && !(kind == "uint" && d.Kind == "int") {
		panic(fmt.Sprintf("zzverif: replay desync at draw %d: recorded %s(%s), harness asks %s", rpPos-1, d.Kind, d.Name, kind))
	}
	return d
}

// Symbolic reports whether the harness runs under the symbolic engine.
func Symbolic() bool { return false }

// Tier is 0 for the quick tier and 1 for the thorough tier.
func Tier() int { load(); return rp.Tier }

// Choose forks the exploration n ways (shape choices; no solver variable).
func Choose(n int) int {
	d := next("choose")
	var v int
	json.Unmarshal(d.Val, &v)
	return v
}

// Bool is an unconstrained symbolic boolean.
func Bool(name string) bool {
	d := next("bool")
	var v bool
	json.Unmarshal(d.Val, &v)
	return v
}

func intVal(d draw) int64 {
	var v json.Number
	json.Unmarshal(d.Val, &v)
	if n, err := strconv.ParseInt(v.String(), 10, 64); err == nil {
		return n
	}
	u, _ := strconv.ParseUint(v.String(), 10, 64)
	return int64(u)
}

// Int is a symbolic int in [lo, hi].
func Int(name string, lo, hi int) int { return int(intVal(next("int"))) }

func Int64(name string) int64   { return intVal(next("int")) }
func Int32(name string) int32   { return int32(intVal(next("int"))) }
func Int16(name string) int16   { return int16(intVal(next("int"))) }
func Int8(name string) int8     { return int8(intVal(next("int"))) }
func Uint64(name string) uint64 { return uint64(intVal(next("uint"))) }
func Uint32(name string) uint32 { return uint32(intVal(next("uint"))) }
func Uint16(name string) uint16 { return uint16(intVal(next("uint"))) }
func Uint8(name string) uint8   { return uint8(intVal(next("uint"))) }

func floatVal(d draw) float64 {
	var s string
	json.Unmarshal(d.Val, &s)
	f, err := strconv.ParseFloat(s, 64)
	if err != nil {
		return math.NaN()
	}
	return f
}

// Float64 is a symbolic finite float64.
func Float64(name string) float64 { return floatVal(next("float")) }
func Float32(name string) float32 { return float32(floatVal(next("float"))) }

// Str is a symbolic string ranging over the given alternatives.
func Str(name string, alts ...string) string {
	d := next("str")
	var v int
	json.Unmarshal(d.Val, &v)
	return alts[v]
}

// AStr is an abstract string: any string at all (the engine only knows its
// identity, byte length and rune length).
func AStr(name string) string {
	d := next("astr")
	var v struct {
		ID      string `json:"id"`
		Bytelen int    `json:"bytelen"`
		Runelen int    `json:"runelen"`
	}
	json.Unmarshal(d.Val, &v)
	if s, ok := astrSeen[v.ID]; ok {
		return s
	}
	s := makeString(len(astrSeen), v.Bytelen, v.Runelen)
	astrSeen[v.ID] = s
	return s
}

// makeString builds a string of the given byte and rune length, distinct for distinct n.
func makeString(n, bytelen, runelen int) string {
	if runelen == 0 || bytelen == 0 {
		return ""
	}
	one := []rune("abcdefghijklmnopqrstuvwxyz")
	two := []rune("éèêëàâäîïôöùûüçñáíóú")
	three := []rune("€₤₥₦₧₨₩₪₫₭₮₯")
	four := []rune("𝐀𝐁𝐂𝐃𝐄𝐅𝐆𝐇𝐈𝐉")
	sizes := make([]int, runelen)
	rem := bytelen
	for i := range sizes {
		sizes[i] = 1
		rem--
	}
	for i := 0; rem > 0 && i < runelen; i++ {
		add := rem
		if add > 3 {
			add = 3
		}
		sizes[i] += add
		rem -= add
	}
	var sb strings.Builder
	for i, sz := range sizes {
		k := n
		if i > 0 {
			k = 0
		}
		switch sz {
		case 1:
			sb.WriteRune(one[k%len(one)])
		case 2:
			sb.WriteRune(two[k%len(two)])
		case 3:
			sb.WriteRune(three[k%len(three)])
		default:
			sb.WriteRune(four[k%len(four)])
		}
	}
	return sb.String()
}

// And, Or, Implies evaluate both operands (no short-circuit): under the engine they
// build one solver term instead of forking the path.
func And(a, b bool) bool     { return a && b }
func Or(a, b bool) bool      { return a || b }
func Implies(a, b bool) bool { return !a || b }

// IteStr is `if c then a else b` without forking.
func IteStr(c bool, a, b string) string {
	if c {
		return a
	}
	return b
}

// Assume ends the path when c does not hold. A recorded assignment satisfies
// every assumption, so natively a false assumption is a replay mismatch.
func Assume(c bool) {
	if !c {
		fmt.Println("VERIF-OUTCOME: assume-false")
		finish()
		os.Exit(0)
	}
}

// Assert states the property. Natively failures are collected and reported at the end.
func Assert(c bool, msg string) {
	if !c {
		failed = append(failed, msg)
	}
}

// Excuse names a predicate that characterises one known finding.
func Excuse(name string, c bool) {
	if c {
		excused = append(excused, name)
	}
}
func ClearExcuses() {}

// Freeze makes every heap object reachable from v read-only for the engine; natively
// a deep snapshot is taken and compared by CheckFrozen.
func Freeze(v any) { frozen = append(frozen, frozenRec{v, DumpNative(v)}) }
func Unfreeze(v any) {
	frozen = nil
}
func CheckFrozen() {
	for _, f := range frozen {
		if now := DumpNative(f.v); now != f.dump {
			failed = append(failed, "frozen-write")
			fmt.Println("VERIF-FROZEN-BEFORE:", f.dump)
			fmt.Println("VERIF-FROZEN-AFTER: ", now)
		}
	}
}

func Observe(v any) { fmt.Println("VERIF-OBSERVE:", DumpNative(v)) }
func Reach(label string) {}

// DeepEqual is reflect.DeepEqual (the engine compares leaves symbolically).
func DeepEqual(a, b any) bool { return reflect.DeepEqual(a, b) }

// DeepEqualNilEmpty is DeepEqual where nil and empty slices/maps are the same.
func DeepEqualNilEmpty(a, b any) bool { return DumpNativeOpts(a, true) == DumpNativeOpts(b, true) }

// SharedHeap names mutable heap shared by a and b ("" when disjoint).
func SharedHeap(a, b any) string {
	pa, pb := map[uintptr]string{}, map[uintptr]string{}
	collectPtrs(reflect.ValueOf(a), pa, "a")
	collectPtrs(reflect.ValueOf(b), pb, "b")
	var shared []string
	for p, where := range pa {
		if _, ok := pb[p]; ok {
			shared = append(shared, where)
		}
	}
	sort.Strings(shared)
	return strings.Join(shared, ",")
}

func collectPtrs(v reflect.Value, out map[uintptr]string, path string) {
	if !v.IsValid() {
		return
	}
	switch v.Kind() {
	case reflect.Ptr:
		if v.IsNil() {
			return
		}
		if _, ok := out[v.Pointer()]; ok {
			return
		}
		out[v.Pointer()] = path
		collectPtrs(v.Elem(), out, path+".*")
	case reflect.Interface:
		if !v.IsNil() {
			collectPtrs(v.Elem(), out, path)
		}
	case reflect.Slice:
		if v.IsNil() || v.Cap() == 0 {
			return
		}
		if _, ok := out[v.Pointer()]; !ok {
			out[v.Pointer()] = path + "[]"
		}
		for i := 0; i < v.Len(); i++ {
			collectPtrs(v.Index(i), out, fmt.Sprintf("%s[%d]", path, i))
		}
	case reflect.Array:
		for i := 0; i < v.Len(); i++ {
			collectPtrs(v.Index(i), out, fmt.Sprintf("%s[%d]", path, i))
		}
	case reflect.Map:
		if v.IsNil() {
			return
		}
		if _, ok := out[v.Pointer()]; ok {
			return
		}
		out[v.Pointer()] = path + "{}"
		it := v.MapRange()
		for it.Next() {
			collectPtrs(it.Value(), out, path+"{v}")
		}
	case reflect.Struct:
		for i := 0; i < v.NumField(); i++ {
			collectPtrs(v.Field(i), out, path+"."+v.Type().Field(i).Name)
		}
	}
}

func SymOrder(on bool) {}

func Fatal(msg string) { panic("VERIF-HARNESS-FATAL: " + msg) }

func Dump(v any) string { return DumpNative(v) }

func TypeName(v any) string {
	if v == nil {
		return "<nil>"
	}
	return reflect.TypeOf(v).String()
}

// DumpNative renders a value deeply and deterministically (maps sorted, pointers followed).
func DumpNative(v any) string { return DumpNativeOpts(v, false) }

func DumpNativeOpts(v any, nilIsEmpty bool) string {
	var sb strings.Builder
	dumpRec(&sb, reflect.ValueOf(v), map[uintptr]bool{}, 0, nilIsEmpty)
	return sb.String()
}

func dumpRec(sb *strings.Builder, v reflect.Value, seen map[uintptr]bool, depth int, nilIsEmpty bool) {
	if !v.IsValid() {
		sb.WriteString("nil")
		return
	}
	if depth > 40 {
		sb.WriteString("…")
		return
	}
	switch v.Kind() {
	case reflect.Ptr:
		if v.IsNil() {
			sb.WriteString("nil")
			return
		}
		if seen[v.Pointer()] {
			sb.WriteString("&cycle")
			return
		}
		seen[v.Pointer()] = true
		sb.WriteString("&")
		dumpRec(sb, v.Elem(), seen, depth+1, nilIsEmpty)
		delete(seen, v.Pointer())
	case reflect.Interface:
		if v.IsNil() {
			sb.WriteString("nil")
			return
		}
		sb.WriteString("(" + v.Elem().Type().String() + ")")
		dumpRec(sb, v.Elem(), seen, depth+1, nilIsEmpty)
	case reflect.Slice:
		if v.IsNil() && !nilIsEmpty {
			sb.WriteString("[]nil")
			return
		}
		sb.WriteString("[")
		for i := 0; i < v.Len(); i++ {
			if i > 0 {
				sb.WriteString(" ")
			}
			dumpRec(sb, v.Index(i), seen, depth+1, nilIsEmpty)
		}
		sb.WriteString("]")
	case reflect.Array:
		sb.WriteString("[")
		for i := 0; i < v.Len(); i++ {
			if i > 0 {
				sb.WriteString(" ")
			}
			dumpRec(sb, v.Index(i), seen, depth+1, nilIsEmpty)
		}
		sb.WriteString("]")
	case reflect.Map:
		if v.IsNil() && !nilIsEmpty {
			sb.WriteString("map[]nil")
			return
		}
		var parts []string
		it := v.MapRange()
		for it.Next() {
			var kb, vb strings.Builder
			dumpRec(&kb, it.Key(), seen, depth+1, nilIsEmpty)
			dumpRec(&vb, it.Value(), seen, depth+1, nilIsEmpty)
			parts = append(parts, kb.String()+":"+vb.String())
		}
		sort.Strings(parts)
		sb.WriteString("map[" + strings.Join(parts, " ") + "]")
	case reflect.Struct:
		sb.WriteString("{")
		for i := 0; i < v.NumField(); i++ {
			if i > 0 {
				sb.WriteString(" ")
			}
			dumpRec(sb, v.Field(i), seen, depth+1, nilIsEmpty)
		}
		sb.WriteString("}")
	case reflect.String:
		sb.WriteString(strconv.Quote(v.String()))
	case reflect.Bool:
		fmt.Fprint(sb, v.Bool())
	case reflect.Int, reflect.Int8, reflect.Int16, reflect.Int32, reflect.Int64:
		fmt.Fprint(sb, v.Int())
	case reflect.Uint, reflect.Uint8, reflect.Uint16, reflect.Uint32, reflect.Uint64, reflect.Uintptr:
		fmt.Fprint(sb, v.Uint())
	case reflect.Float32, reflect.Float64:
		fmt.Fprint(sb, v.Float())
	case reflect.Func:
		if v.IsNil() {
			sb.WriteString("nilfunc")
		} else {
			sb.WriteString("func")
		}
	default:
		sb.WriteString("?" + v.Kind().String())
	}
}

func finish() {
	if len(excused) > 0 {
		fmt.Println("VERIF-EXCUSES: " + strings.Join(excused, ","))
	}
	for _, f := range failed {
		fmt.Println("VERIF-FAILED: " + f)
	}
}

// RunReplay runs the harness entry named by the replay file natively and prints
// what happened in a form the driver parses.
func RunReplay(entries map[string]func()) {
	load()
	f, ok := entries[rp.Entry]
	if !ok {
		fmt.Println("VERIF-OUTCOME: no-such-entry " + rp.Entry)
		return
	}
	defer func() {
		if r := recover(); r != nil {
			finish()
			fmt.Printf("VERIF-OUTCOME: panic: %v\n", r)
			fmt.Println("VERIF-STACK-BEGIN")
			os.Stdout.Write(debug.Stack())
			fmt.Println("VERIF-STACK-END")
			return
		}
	}()
	f()
	CheckFrozen()
	finish()
	if len(failed) > 0 {
		fmt.Println("VERIF-OUTCOME: assert-failed")
	} else {
		fmt.Println("VERIF-OUTCOME: ok")
	}
}
