// Package zzverif is the harness API. It is injected into /repo as a virtual
// package (go -overlay / go/packages Overlay) and never written there.
//
// Under the symbolic engine every function below is intercepted (the bodies are
// never interpreted). Compiled natively the same functions replay one concrete
// assignment, recorded by the engine from a solver model, against the real code.
package zzverif

import (
	"encoding/json"
	"fmt"
	"math"
	"os"
	"reflect"
	"runtime/debug"
	"sort"
	"strconv"
	"strings"
	"unsafe"
)

type draw struct {
	Kind string          `json:"kind"`
	Name string          `json:"name"`
	Alts []string        `json:"alts"`
	Bits int             `json:"bits"`
	Val  json.RawMessage `json:"val"`
}

type replayFile struct {
	Entry string `json:"entry"`
	Tier  int    `json:"tier"`
	Draws []draw `json:"draws"`
}

var (
	rp       *replayFile
	rpPos    int
	failed   []string
	excused  []string
	frozen   []frozenRec
	astrSeen = map[string]string{}
)

type frozenRec struct {
	v    any
	dump string
}

func load() {
	if rp != nil {
		return
	}
	path := os.Getenv("VERIF_REPLAY")
	if path == "" {
		panic("zzverif: VERIF_REPLAY not set (native run needs a recorded assignment)")
	}
	raw, err := os.ReadFile(path)
	if err != nil {
		panic(err)
	}
	rp = &replayFile{}
	if err := json.Unmarshal(raw, rp); err != nil {
		panic(err)
	}
}

func next(kind string) draw {
	load()
	for rpPos < len(rp.Draws) && rp.Draws[rpPos].Kind == "order" {
		rpPos++ // map-order draws cannot be imposed on the native runtime
	}
	if rpPos >= len(rp.Draws) {
		panic(fmt.Sprintf("zzverif: replay desync: out of draws (wanted %s)", kind))
	}
	d := rp.Draws[rpPos]
	rpPos++
	if d.Kind != kind && !(kind == "int" && d.Kind == "uint") && !(kind == "uint" && d.Kind == "int") {
		panic(fmt.Sprintf("zzverif: replay desync at draw %d: recorded %s(%s), harness asks %s", rpPos-1, d.Kind, d.Name, kind))
	}
	return d
}

// Symbolic reports whether the harness runs under the symbolic engine.
func Symbolic() bool { return false }

// Tier is 0 for the quick tier and 1 for the thorough tier.
func Tier() int { load(); return rp.Tier }

// Choose forks the exploration n ways (shape choices; no solver variable).
func Choose(n int) int {
	d := next("choose")
	var v int
	json.Unmarshal(d.Val, &v)
	return v
}

// Bool is an unconstrained symbolic boolean.
func Bool(name string) bool {
	d := next("bool")
	var v bool
	json.Unmarshal(d.Val, &v)
	return v
}

func intVal(d draw) int64 {
	var v json.Number
	json.Unmarshal(d.Val, &v)
	if n, err := strconv.ParseInt(v.String(), 10, 64); err == nil {
		return n
	}
	u, _ := strconv.ParseUint(v.String(), 10, 64)
	return int64(u)
}

// Int is a symbolic int in [lo, hi].
func Int(name string, lo, hi int) int { return int(intVal(next("int"))) }

func Int64(name string) int64   { return intVal(next("int")) }
func Int32(name string) int32   { return int32(intVal(next("int"))) }
func Int16(name string) int16   { return int16(intVal(next("int"))) }
func Int8(name string) int8     { return int8(intVal(next("int"))) }
func Uint64(name string) uint64 { return uint64(intVal(next("uint"))) }
func Uint32(name string) uint32 { return uint32(intVal(next("uint"))) }
func Uint16(name string) uint16 { return uint16(intVal(next("uint"))) }
func Uint8(name string) uint8   { return uint8(intVal(next("uint"))) }

func floatVal(d draw) float64 {
	var s string
	json.Unmarshal(d.Val, &s)
	f, err := strconv.ParseFloat(s, 64)
	if err != nil {
		return math.NaN()
	}
	return f
}

// Float64 is a symbolic finite float64.
func Float64(name string) float64 { return floatVal(next("float")) }
func Float32(name string) float32 { return float32(floatVal(next("float"))) }

// Str is a symbolic string ranging over the given alternatives.
func Str(name string, alts ...string) string {
	d := next("str")
	var v int
	json.Unmarshal(d.Val, &v)
	return alts[v]
}

// AStr is an abstract string: any string at all (the engine only knows its
// identity, byte length and rune length).
func AStr(name string) string {
	d := next("astr")
	var v struct {
		ID      string `json:"id"`
		Bytelen int    `json:"bytelen"`
		Runelen int    `json:"runelen"`
	}
	json.Unmarshal(d.Val, &v)
	if s, ok := astrSeen[v.ID]; ok {
		return s
	}
	s := makeString(len(astrSeen), v.Bytelen, v.Runelen)
	astrSeen[v.ID] = s
	return s
}

// makeString builds a string of the given byte and rune length, distinct for distinct n.
func makeString(n, bytelen, runelen int) string {
	if runelen == 0 || bytelen == 0 {
		return ""
	}
	one := []rune("abcdefghijklmnopqrstuvwxyz")
	two := []rune("éèêëàâäîïôöùûüçñáíóú")
	three := []rune("€₤₥₦₧₨₩₪₫₭₮₯")
	four := []rune("𝐀𝐁𝐂𝐃𝐄𝐅𝐆𝐇𝐈𝐉")
	sizes := make([]int, runelen)
	rem := bytelen
	for i := range sizes {
		sizes[i] = 1
		rem--
	}
	for i := 0; rem > 0 && i < runelen; i++ {
		add := rem
		if add > 3 {
			add = 3
		}
		sizes[i] += add
		rem -= add
	}
	var sb strings.Builder
	for i, sz := range sizes {
		k := n
		if i > 0 {
			k = 0
		}
		switch sz {
		case 1:
			sb.WriteRune(one[k%len(one)])
		case 2:
			sb.WriteRune(two[k%len(two)])
		case 3:
			sb.WriteRune(three[k%len(three)])
		default:
			sb.WriteRune(four[k%len(four)])
		}
	}
	return sb.String()
}

// And, Or, Implies evaluate both operands (no short-circuit): under the engine they
// build one solver term instead of forking the path.
func And(a, b bool) bool     { return a && b }
func Or(a, b bool) bool      { return a || b }
func Implies(a, b bool) bool { return !a || b }

// IteStr is `if c then a else b` without forking.
func IteStr(c bool, a, b string) string {
	if c {
		return a
	}
	return b
}

// Assume ends the path when c does not hold. A recorded assignment satisfies
// every assumption, so natively a false assumption is a replay mismatch.
func Assume(c bool) {
	if !c {
		fmt.Println("VERIF-OUTCOME: assume-false")
		finish()
		os.Exit(0)
	}
}

// Assert states the property. Natively failures are collected and reported at the end.
func Assert(c bool, msg string) {
	if !c {
		failed = append(failed, msg)
	}
}

// Excuse names a predicate that characterises one known finding.
func Excuse(name string, c bool) {
	if c {
		excused = append(excused, name)
	}
}
func ClearExcuses() {}

// Freeze makes every heap object reachable from v read-only for the engine; natively
// a deep snapshot is taken and compared by CheckFrozen.
func Freeze(v any) { frozen = append(frozen, frozenRec{v, DumpNative(v)}) }
func Unfreeze(v any) {
	frozen = nil
}
func CheckFrozen() {
	for _, f := range frozen {
		if now := DumpNative(f.v); now != f.dump {
			failed = append(failed, "frozen-write")
			fmt.Println("VERIF-FROZEN-BEFORE:", f.dump)
			fmt.Println("VERIF-FROZEN-AFTER: ", now)
		}
	}
}

func Observe(v any) { fmt.Println("VERIF-OBSERVE:", DumpNative(v)) }
func Reach(label string) {}

// DeepEqual is reflect.DeepEqual (the engine compares leaves symbolically).
func DeepEqual(a, b any) bool { return reflect.DeepEqual(a, b) }

// DeepEqualNilEmpty is DeepEqual where nil and empty slices/maps are the same.
func DeepEqualNilEmpty(a, b any) bool { return DumpNativeOpts(a, true) == DumpNativeOpts(b, true) }

// SharedHeap classifies the mutable heap shared by a and b: "" (disjoint),
// "payload" (only objects held inside interface values, i.e. `any` payloads) or
// "structure" (a pointee, slice backing or map reached through declared fields).
func SharedHeap(a, b any) string {
	pa, pb := map[uintptr]bool{}, map[uintptr]bool{}
	collectPtrs(reflect.ValueOf(a), pa, false)
	collectPtrs(reflect.ValueOf(b), pb, false)
	res := ""
	for p, viaA := range pa {
		if viaB, ok := pb[p]; ok {
			if viaA && viaB {
				if res == "" {
					res = "payload"
				}
			} else {
				res = "structure"
			}
		}
	}
	return res
}

// collectPtrs records every mutable heap object with whether it was only reached
// through an interface value.
func collectPtrs(v reflect.Value, out map[uintptr]bool, via bool) {
	if !v.IsValid() {
		return
	}
	visit := func(p uintptr) bool {
		old, seen := out[p]
		if seen && !(old && !via) {
			return false
		}
		out[p] = via
		return true
	}
	switch v.Kind() {
	case reflect.Ptr:
		if v.IsNil() {
			return
		}
		if visit(v.Pointer()) {
			collectPtrs(v.Elem(), out, via)
		}
	case reflect.Interface:
		if !v.IsNil() {
			collectPtrs(v.Elem(), out, true)
		}
	case reflect.Slice:
		if v.IsNil() || v.Cap() == 0 {
			return
		}
		if visit(v.Pointer()) {
			for i := 0; i < v.Len(); i++ {
				collectPtrs(v.Index(i), out, via)
			}
		}
	case reflect.Array:
		for i := 0; i < v.Len(); i++ {
			collectPtrs(v.Index(i), out, via)
		}
	case reflect.Map:
		if v.IsNil() {
			return
		}
		if visit(v.Pointer()) {
			it := v.MapRange()
			for it.Next() {
				collectPtrs(it.Value(), out, via)
			}
		}
	case reflect.Struct:
		for i := 0; i < v.NumField(); i++ {
			collectPtrs(v.Field(i), out, via)
		}
	}
}

func SymOrder(on bool) {}

func Fatal(msg string) { panic("VERIF-HARNESS-FATAL: " + msg) }

func Dump(v any) string { return DumpNative(v) }

func TypeName(v any) string {
	if v == nil {
		return "<nil>"
	}
	return reflect.TypeOf(v).String()
}

// DumpNative renders a value deeply and deterministically (maps sorted, pointers followed).
func DumpNative(v any) string { return DumpNativeOpts(v, false) }

func DumpNativeOpts(v any, nilIsEmpty bool) string {
	var sb strings.Builder
	dumpRec(&sb, reflect.ValueOf(v), map[uintptr]bool{}, 0, nilIsEmpty)
	return sb.String()
}

func dumpRec(sb *strings.Builder, v reflect.Value, seen map[uintptr]bool, depth int, nilIsEmpty bool) {
	if !v.IsValid() {
		sb.WriteString("nil")
		return
	}
	if depth > 40 {
		sb.WriteString("…")
		return
	}
	switch v.Kind() {
	case reflect.Ptr:
		if v.IsNil() {
			sb.WriteString("nil")
			return
		}
		if seen[v.Pointer()] {
			sb.WriteString("&cycle")
			return
		}
		seen[v.Pointer()] = true
		sb.WriteString("&")
		dumpRec(sb, v.Elem(), seen, depth+1, nilIsEmpty)
		delete(seen, v.Pointer())
	case reflect.Interface:
		if v.IsNil() {
			sb.WriteString("nil")
			return
		}
		sb.WriteString("(" + v.Elem().Type().String() + ")")
		dumpRec(sb, v.Elem(), seen, depth+1, nilIsEmpty)
	case reflect.Slice:
		if v.IsNil() && !nilIsEmpty {
			sb.WriteString("[]nil")
			return
		}
		sb.WriteString("[")
		for i := 0; i < v.Len(); i++ {
			if i > 0 {
				sb.WriteString(" ")
			}
			dumpRec(sb, v.Index(i), seen, depth+1, nilIsEmpty)
		}
		sb.WriteString("]")
	case reflect.Array:
		sb.WriteString("[")
		for i := 0; i < v.Len(); i++ {
			if i > 0 {
				sb.WriteString(" ")
			}
			dumpRec(sb, v.Index(i), seen, depth+1, nilIsEmpty)
		}
		sb.WriteString("]")
	case reflect.Map:
		if v.IsNil() && !nilIsEmpty {
			sb.WriteString("map[]nil")
			return
		}
		var parts []string
		it := v.MapRange()
		for it.Next() {
			var kb, vb strings.Builder
			dumpRec(&kb, it.Key(), seen, depth+1, nilIsEmpty)
			dumpRec(&vb, it.Value(), seen, depth+1, nilIsEmpty)
			parts = append(parts, kb.String()+":"+vb.String())
		}
		sort.Strings(parts)
		sb.WriteString("map[" + strings.Join(parts, " ") + "]")
	case reflect.Struct:
		sb.WriteString("{")
		for i := 0; i < v.NumField(); i++ {
			if i > 0 {
				sb.WriteString(" ")
			}
			dumpRec(sb, v.Field(i), seen, depth+1, nilIsEmpty)
		}
		sb.WriteString("}")
	case reflect.String:
		sb.WriteString(strconv.Quote(v.String()))
	case reflect.Bool:
		fmt.Fprint(sb, v.Bool())
	case reflect.Int, reflect.Int8, reflect.Int16, reflect.Int32, reflect.Int64:
		fmt.Fprint(sb, v.Int())
	case reflect.Uint, reflect.Uint8, reflect.Uint16, reflect.Uint32, reflect.Uint64, reflect.Uintptr:
		fmt.Fprint(sb, v.Uint())
	case reflect.Float32, reflect.Float64:
		fmt.Fprint(sb, v.Float())
	case reflect.Func:
		if v.IsNil() {
			sb.WriteString("nilfunc")
		} else {
			sb.WriteString("func")
		}
	default:
		sb.WriteString("?" + v.Kind().String())
	}
}

func finish() {
	if len(excused) > 0 {
		fmt.Println("VERIF-EXCUSES: " + strings.Join(excused, ","))
	}
	for _, f := range failed {
		fmt.Println("VERIF-FAILED: " + f)
	}
}

// RunReplay runs the harness entry named by the replay file natively and prints
// what happened in a form the driver parses.
func RunReplay(entries map[string]func()) {
	load()
	defer removeTempFiles()
	f, ok := entries[rp.Entry]
	if !ok {
		fmt.Println("VERIF-OUTCOME: no-such-entry " + rp.Entry)
		return
	}
	// order-dependence findings need several native runs (fresh maps each time) before
	// two different iteration orders are observed
	repeat := 1
	if n, err := strconv.Atoi(os.Getenv("VERIF_REPEAT")); err == nil && n > 1 {
		repeat = n
	}
	defer func() {
		if r := recover(); r != nil {
			finish()
			fmt.Printf("VERIF-OUTCOME: panic: %v\n", r)
			fmt.Println("VERIF-STACK-BEGIN")
			os.Stdout.Write(debug.Stack())
			fmt.Println("VERIF-STACK-END")
			return
		}
	}()
	for i := 0; i < repeat && len(failed) == 0; i++ {
		rpPos = 0
		frozen = nil
		f()
		CheckFrozen()
	}
	finish()
	if len(failed) > 0 {
		fmt.Println("VERIF-OUTCOME: assert-failed")
	} else {
		fmt.Println("VERIF-OUTCOME: ok")
	}
}

// ---------------------------------------------------------------- SymValue / Clone

// SymValue builds an arbitrary value of type T (see engine/symvalue.go, which this
// mirrors draw for draw): mode 0 populates every pointer/slice/map down to depth
// with symbolic leaves on one path; mode 1 also forks nil-ness/lengths at the top level.
func SymValue[T any](name string, depth, mode int) T {
	var out T
	g := &symGen{mode: mode & 1, json: mode&2 != 0, fixedKeys: mode&4 != 0, impls: mode&8 != 0}
	if mode&1 == 1 {
		g.pick = Choose(countTop(reflect.TypeOf(&out).Elem(), g.impls) + 1)
	}
	if mode&16 != 0 {
		g.anyRR = Choose(5)
	}
	g.gen(reflect.ValueOf(&out).Elem(), depth, true)
	return out
}

type symGen struct {
	mode      int
	anyRR     int
	pick, pos int
	json      bool
	fixedKeys bool
	impls     bool
}

// implRegistry: interface type -> the implementing type SymValue populates it with (mode bit 3).
// Filled by generated harness code from the same go/types query the engine uses (implFor).
var implRegistry = map[reflect.Type]reflect.Type{}

// RegisterImpl declares T as the type SymValue uses for values of the interface type I.
func RegisterImpl[I any, T any]() {
	implRegistry[reflect.TypeOf((*I)(nil)).Elem()] = reflect.TypeOf((*T)(nil)).Elem()
}

func countTop(t reflect.Type, impls bool) int {
	switch t.Kind() {
	case reflect.Ptr, reflect.Slice, reflect.Map:
		return 1
	case reflect.Interface:
		if t.NumMethod() > 0 {
			if _, ok := implRegistry[t]; impls && ok {
				return 1
			}
			return 0
		}
		return 1
	case reflect.Struct:
		n := 0
		for i := 0; i < t.NumField(); i++ {
			n += countTop(t.Field(i).Type, impls)
		}
		return n
	case reflect.Array:
		return t.Len() * countTop(t.Elem(), impls)
	}
	return 0
}

func (g *symGen) populated() bool {
	p := g.pos
	g.pos++
	return p == g.pick
}

func settable(v reflect.Value) reflect.Value {
	if v.CanSet() {
		return v
	}
	return reflect.NewAt(v.Type(), unsafe.Pointer(v.UnsafeAddr())).Elem()
}

func (g *symGen) choose(n int) int { return Choose(n) }

func (g *symGen) gen(v reflect.Value, depth int, top bool) {
	v = settable(v)
	fork := g.mode == 1 && top
	switch v.Kind() {
	case reflect.Bool:
		v.SetBool(Bool(""))
	case reflect.Int, reflect.Int8, reflect.Int16, reflect.Int32, reflect.Int64:
		v.SetInt(intVal(next("int")))
	case reflect.Uint, reflect.Uint8, reflect.Uint16, reflect.Uint32, reflect.Uint64, reflect.Uintptr:
		v.SetUint(uint64(intVal(next("uint"))))
	case reflect.Float32, reflect.Float64:
		v.SetFloat(float64(intVal(next("int"))))
	case reflect.String:
		v.SetString(Str("", "", "a", "b"))
	case reflect.Ptr:
		if depth <= 0 {
			return
		}
		if fork && !g.populated() {
			return
		}
		p := reflect.New(v.Type().Elem())
		g.gen(p.Elem(), depth-1, false)
		v.Set(p)
	case reflect.Slice:
		if depth <= 0 {
			return
		}
		n := 1
		if fork {
			if !g.populated() {
				return
			}
			n = 2
		}
		s := reflect.MakeSlice(v.Type(), n, n)
		for i := 0; i < n; i++ {
			g.gen(s.Index(i), depth-1, false)
		}
		v.Set(s)
	case reflect.Map:
		if depth <= 0 {
			return
		}
		if fork && !g.populated() {
			return
		}
		m := reflect.MakeMap(v.Type())
		k := reflect.New(v.Type().Key()).Elem()
		if g.fixedKeys && k.Kind() == reflect.String {
			k.SetString("k")
		} else {
			g.gen(k, depth-1, false)
		}
		e := reflect.New(v.Type().Elem()).Elem()
		g.gen(e, depth-1, false)
		m.SetMapIndex(k, e)
		v.Set(m)
	case reflect.Struct:
		if strings.HasSuffix(v.Type().PkgPath(), "internal/orderedmap") && strings.HasPrefix(v.Type().Name(), "Map[") && v.NumField() == 2 {
			// representation invariant of orderedmap.Map: order lists exactly the keys of records
			if depth <= 0 {
				return
			}
			rec, ord := settable(v.Field(0)), settable(v.Field(1))
			m := reflect.MakeMap(rec.Type())
			k := reflect.New(rec.Type().Key()).Elem()
			g.gen(k, depth-1, false)
			e := reflect.New(rec.Type().Elem()).Elem()
			g.gen(e, depth-1, false)
			m.SetMapIndex(k, e)
			rec.Set(m)
			o := reflect.MakeSlice(ord.Type(), 1, 1)
			o.Index(0).Set(k)
			ord.Set(o)
			return
		}
		for i := 0; i < v.NumField(); i++ {
			g.gen(v.Field(i), depth, top)
		}
	case reflect.Array:
		for i := 0; i < v.Len(); i++ {
			g.gen(v.Index(i), depth, false)
		}
	case reflect.Interface:
		if v.Type().NumMethod() > 0 {
			impl, ok := implRegistry[v.Type()]
			if !g.impls || !ok || depth <= 0 {
				return
			}
			if fork && !g.populated() {
				return
			}
			nv := reflect.New(impl).Elem()
			g.gen(nv, depth, false)
			v.Set(nv)
			return
		}
		k := g.anyRR % 5
		if fork {
			if !g.populated() {
				return
			}
			k = g.choose(5)
		}
		g.anyRR++
		if depth <= 0 && k >= 3 {
			k = 0
		}
		switch k {
		case 0:
			v.Set(reflect.ValueOf(Str("", "", "a", "b")))
		case 1:
			if g.json {
				v.Set(reflect.ValueOf(float64(intVal(next("int")))))
			} else {
				v.Set(reflect.ValueOf(intVal(next("int"))))
			}
		case 2:
			v.Set(reflect.ValueOf(Bool("")))
		case 3:
			v.Set(reflect.ValueOf([]any{Str("", "", "a", "b")}))
		default:
			v.Set(reflect.ValueOf(map[string]any{"k": Str("", "", "a", "b")}))
		}
	}
}

// Clone deep-copies a value without using the code under test.
func Clone[T any](x T) T {
	var out T
	cloneRec(reflect.ValueOf(&out).Elem(), reflect.ValueOf(&x).Elem(), map[uintptr]reflect.Value{})
	return out
}

func cloneRec(dst, src reflect.Value, seen map[uintptr]reflect.Value) {
	dst = settable(dst)
	if !src.CanInterface() && src.CanAddr() {
		src = reflect.NewAt(src.Type(), unsafe.Pointer(src.UnsafeAddr())).Elem()
	}
	switch src.Kind() {
	case reflect.Ptr:
		if src.IsNil() {
			return
		}
		if p, ok := seen[src.Pointer()]; ok {
			dst.Set(p)
			return
		}
		p := reflect.New(src.Type().Elem())
		seen[src.Pointer()] = p
		cloneRec(p.Elem(), src.Elem(), seen)
		dst.Set(p)
	case reflect.Slice:
		if src.IsNil() {
			return
		}
		s := reflect.MakeSlice(src.Type(), src.Len(), src.Cap())
		for i := 0; i < src.Len(); i++ {
			cloneRec(s.Index(i), src.Index(i), seen)
		}
		dst.Set(s)
	case reflect.Map:
		if src.IsNil() {
			return
		}
		m := reflect.MakeMapWithSize(src.Type(), src.Len())
		it := src.MapRange()
		for it.Next() {
			k := reflect.New(src.Type().Key()).Elem()
			cloneRec(k, it.Key(), seen)
			e := reflect.New(src.Type().Elem()).Elem()
			cloneRec(e, it.Value(), seen)
			m.SetMapIndex(k, e)
		}
		dst.Set(m)
	case reflect.Struct:
		for i := 0; i < src.NumField(); i++ {
			cloneRec(dst.Field(i), src.Field(i), seen)
		}
	case reflect.Array:
		for i := 0; i < src.Len(); i++ {
			cloneRec(dst.Index(i), src.Index(i), seen)
		}
	case reflect.Interface:
		if src.IsNil() {
			return
		}
		e := reflect.New(src.Elem().Type()).Elem()
		cloneRec(e, src.Elem(), seen)
		dst.Set(e)
	default:
		dst.Set(src)
	}
}

// MapKeySetsDiffer: walking a and b in parallel, some pair of corresponding maps of
// equal length has different key sets.
func MapKeySetsDiffer(a, b any) bool {
	return keySetsDiffer(reflect.ValueOf(a), reflect.ValueOf(b), 0)
}

func keySetsDiffer(a, b reflect.Value, depth int) bool {
	if !a.IsValid() || !b.IsValid() || a.Type() != b.Type() || depth > 40 {
		return false
	}
	switch a.Kind() {
	case reflect.Interface, reflect.Ptr:
		if a.IsNil() || b.IsNil() {
			return false
		}
		return keySetsDiffer(a.Elem(), b.Elem(), depth+1)
	case reflect.Struct:
		for i := 0; i < a.NumField(); i++ {
			if keySetsDiffer(a.Field(i), b.Field(i), depth+1) {
				return true
			}
		}
	case reflect.Slice, reflect.Array:
		if a.Len() != b.Len() {
			return false
		}
		for i := 0; i < a.Len(); i++ {
			if keySetsDiffer(a.Index(i), b.Index(i), depth+1) {
				return true
			}
		}
	case reflect.Map:
		if a.IsNil() || b.IsNil() || a.Len() != b.Len() {
			return false
		}
		it := a.MapRange()
		for it.Next() {
			bv := b.MapIndex(it.Key())
			if !bv.IsValid() {
				return true
			}
			if keySetsDiffer(it.Value(), bv, depth+1) {
				return true
			}
		}
	}
	return false
}

// ---------------------------------------------------------------- JSON documents as trees

// J is a JSON document as a tree: the shape (kinds, lengths, keys present) is chosen by the
// harness (forked), the leaves are symbolic. JSONBytes turns it into the []byte the code under
// test decodes; under the engine the bytes are a handle to the tree and encoding/json.Unmarshal
// is given its documented contract per Go target type.
type J struct {
	Kind int // 0 null, 1 bool, 2 number, 3 string, 4 array, 5 object
	Bool bool
	Num  int64 // the number's integral part
	Frac bool  // the number is Num + 0.5 (not integral)
	Str  string
	Arr  []J
	Keys []string
	Vals []J
}

const (
	JNull = iota
	JBool
	JNumber
	JString
	JArray
	JObject
)

// TempFile stores a document in a file of its own and returns the path (for loaders that only
// take a file name). Under the engine os.Open on that path yields the document.
func TempFile(b []byte) string {
	f, err := os.CreateTemp("", "verif-doc-*.yaml")
	if err != nil {
		panic(err)
	}
	defer f.Close()
	if _, err := f.Write(b); err != nil {
		panic(err)
	}
	tempFiles = append(tempFiles, f.Name())
	return f.Name()
}

var tempFiles []string

func removeTempFiles() {
	for _, f := range tempFiles {
		os.Remove(f)
	}
	tempFiles = nil
}

func JSONBytes(j J) []byte {
	var sb strings.Builder
	writeJ(&sb, j)
	return []byte(sb.String())
}

func writeJ(sb *strings.Builder, j J) {
	switch j.Kind {
	case JNull:
		sb.WriteString("null")
	case JBool:
		fmt.Fprint(sb, j.Bool)
	case JNumber:
		if j.Frac {
			fmt.Fprintf(sb, "%d.5", j.Num)
		} else {
			fmt.Fprint(sb, j.Num)
		}
	case JString:
		b, _ := json.Marshal(j.Str)
		sb.Write(b)
	case JArray:
		sb.WriteString("[")
		for i, e := range j.Arr {
			if i > 0 {
				sb.WriteString(",")
			}
			writeJ(sb, e)
		}
		sb.WriteString("]")
	default:
		sb.WriteString("{")
		for i, k := range j.Keys {
			if i > 0 {
				sb.WriteString(",")
			}
			b, _ := json.Marshal(k)
			sb.Write(b)
			sb.WriteString(":")
			writeJ(sb, j.Vals[i])
		}
		sb.WriteString("}")
	}
}
