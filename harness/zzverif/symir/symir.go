// Package symir builds bounded symbolic intermediate representations (the
// "shape grammar" of DESIGN.md §4.1) and holds the oracles shared by several
// checks (reference collection, resolution). The shape of a type is forked
// (v.Choose, exhaustive); its leaves are solver variables.
package symir

import (
	"strconv"

	"github.com/grafana/cog/internal/ast"
	v "github.com/grafana/cog/internal/zzverif"
)

// Kind mask of the grammar.
const (
	KScalar = 1 << iota
	KRef
	KConstRef
	KEnum
	KArray
	KMap
	KStruct
	KDisjunction
	KIntersection
	KSlot
	KConstScalar // scalar with a concrete Value
	KNullScalar  // the `null` scalar (only meaningful as a union branch)
)

const KLeaves = KScalar | KRef
const KAllLeaves = KScalar | KRef | KConstRef | KEnum | KConstScalar
const KComposite = KArray | KMap | KStruct | KDisjunction

type Gen struct {
	Pkgs     []string // loaded packages
	RefPkgs  []string // packages a reference may name (may include an unloaded one)
	Names    []string // object names (references draw from the same alphabet unless RefNames is set)
	RefNames []string // names a reference may use
	ConstRefNames []string // names a constant reference may use (constant references denote enum objects)
	Fields   []string // field names
	Scalars  []string // scalar kinds
	Leaves   int      // mask for leaf positions
	Kinds    int      // mask for non-leaf positions
	Width    int      // struct fields / union branches
	UnionWidth int    // union branches (defaults to Width)
	UnionExtraLeaves int // leaf kinds additionally allowed for the branches of a union (e.g. KNullScalar)
	UnionTailLeaves int // if non-zero: leaf mask of the third and later branches of a union (keeps wide unions affordable)
	Nullable bool     // make Nullable symbolic (else false)
	Required bool     // make Required symbolic (else true)
	Defaults bool     // symbolic defaults on scalars
	Constraints bool  // symbolic constraints on scalars
	n        int
	plain    bool // inside a union branch
}

func Default() *Gen {
	return &Gen{
		Pkgs:    []string{"p"},
		RefPkgs: []string{"p"},
		Names:   []string{"Foo", "foo", "Bar"},
		Fields:  []string{"a", "b"},
		Scalars: []string{"string", "int64", "bool"},
		Leaves:  KLeaves,
		Kinds:   KLeaves | KComposite,
		Width:   2,
	}
}

func (g *Gen) Name() string    { return v.Str("name", g.Names...) }
func (g *Gen) RefPkg() string  { return v.Str("refpkg", g.RefPkgs...) }
func (g *Gen) FieldName() string { return v.Str("field", g.Fields...) }

func pick(mask int, all []int) int {
	var avail []int
	for _, k := range all {
		if mask&k != 0 {
			avail = append(avail, k)
		}
	}
	if len(avail) == 0 {
		v.Fatal("symir: empty kind mask")
	}
	return avail[v.Choose(len(avail))]
}

var leafKinds = []int{KScalar, KRef, KConstRef, KEnum, KConstScalar, KNullScalar, KSlot}
var allKinds = []int{KScalar, KRef, KConstRef, KEnum, KConstScalar, KNullScalar, KSlot, KArray, KMap, KStruct, KDisjunction, KIntersection}

func (g *Gen) decorate(t ast.Type) ast.Type {
	if g.Nullable {
		t.Nullable = v.Bool("nullable")
	}
	return t
}

func (g *Gen) ScalarKind() ast.ScalarKind {
	return ast.ScalarKind(v.Str("scalar", g.Scalars...))
}

// Scalar builds a (non-constant) scalar with symbolic kind and optional default/constraints.
func (g *Gen) Scalar() ast.Type {
	t := ast.NewScalar(g.ScalarKind())
	if g.Defaults {
		switch v.Choose(3) {
		case 1:
			t.Default = v.Str("default", "x", "")
		case 2:
			t.Default = int64(v.Int("defaultint", 0, 3))
		}
	}
	if g.Constraints {
		if v.Choose(2) == 1 {
			t.Scalar.Constraints = []ast.TypeConstraint{{Op: ast.Op(v.Str("op", ">=", "<", "<=", ">", "minLength", "maxLength")), Args: []any{int64(v.Int("carg", 0, 3))}}}
		}
	}
	return g.decorate(t)
}

func (g *Gen) ConstScalar() ast.Type {
	switch v.Choose(2) {
	case 0:
		return ast.NewScalar(ast.KindString, ast.Value(v.Str("const", "x", "y", " x")))
	default:
		return ast.NewScalar(ast.KindInt64, ast.Value(int64(v.Int("constint", 0, 2))))
	}
}

func (g *Gen) RefName() string {
	if len(g.RefNames) != 0 {
		return v.Str("refname", g.RefNames...)
	}
	return g.Name()
}

func (g *Gen) Ref() ast.Type {
	t := ast.NewRef(g.RefPkg(), g.RefName())
	if g.Defaults && v.Choose(2) == 1 {
		// a reference position can carry its own default and hints (e.g. a reference to an enum with a default)
		t.Default = v.Str("refdefault", "x", "")
		t.Hints["h"] = "x"
	}
	return g.decorate(t)
}

// Enum builds an enum the way the three parsers do: member names are derived from
// the member values (fmt.Sprintf("%v", value)).
func (g *Gen) Enum() ast.Type {
	if g.plain {
		// inside a union: a lean enum (the union, not the enum, is the subject there)
		if v.Choose(2) == 0 {
			val := v.Str("memberval", "a", " b")
			return g.decorate(ast.NewEnum([]ast.EnumValue{{Type: ast.String(), Name: val, Value: val}}))
		}
		return g.decorate(ast.NewEnum([]ast.EnumValue{{Type: ast.NewScalar(ast.KindInt64), Name: "0", Value: int64(0)}, {Type: ast.NewScalar(ast.KindInt64), Name: "1", Value: int64(1)}}))
	}
	n := 1 + v.Choose(2)
	var vals []ast.EnumValue
	if v.Choose(2) == 0 {
		for i := 0; i < n; i++ {
			val := v.Str("memberval", "a", " b", "1", "", "-x", "+x")
			for _, p := range vals {
				v.Assume(p.Name != val)
			}
			vals = append(vals, ast.EnumValue{Type: ast.String(), Name: val, Value: val})
		}
	} else {
		for i := 0; i < n; i++ {
			name := v.Str("memberint", "0", "1", "-1", "2")
			for _, p := range vals {
				v.Assume(p.Name != name)
			}
			num, _ := strconv.Atoi(name)
			vals = append(vals, ast.EnumValue{Type: ast.NewScalar(ast.KindInt64), Name: name, Value: int64(num)})
		}
	}
	return g.decorate(ast.NewEnum(vals))
}

func (g *Gen) Leaf() ast.Type { return g.leafOf(g.Leaves) }

func (g *Gen) leafOf(mask int) ast.Type {
	switch pick(mask, leafKinds) {
	case KScalar:
		return g.Scalar()
	case KRef:
		return g.Ref()
	case KConstRef:
		name := g.RefName()
		if len(g.ConstRefNames) != 0 {
			name = v.Str("constrefname", g.ConstRefNames...)
		}
		return ast.NewConstantReferenceType(g.RefPkg(), name, v.Str("constrefval", "x", "y"))
	case KEnum:
		return g.Enum()
	case KConstScalar:
		return g.ConstScalar()
	case KNullScalar:
		return ast.Null()
	case KSlot:
		return ast.NewComposableSlot(ast.SchemaVariant(v.Str("variant", "dataquery", "panelcfg")))
	}
	return ast.String()
}

// Type builds a type of nesting depth <= depth.
func (g *Gen) Type(depth int) ast.Type {
	if depth <= 0 {
		return g.Leaf()
	}
	mask := g.Kinds
	switch pick(mask, allKinds) {
	case KArray:
		return g.decorate(ast.NewArray(g.Type(depth - 1)))
	case KMap:
		return g.decorate(ast.NewMap(ast.String(), g.Type(depth-1)))
	case KStruct:
		return g.decorate(g.Struct(depth - 1))
	case KDisjunction:
		n := g.Width
		if g.UnionWidth > 0 {
			n = 2 + v.Choose(g.UnionWidth-1) // 2..UnionWidth branches
		}
		var br ast.Types
		// branches are plain (no defaults / constraints of their own): keeps the number of shapes linear in the width
		saveD, saveC, saveP := g.Defaults, g.Constraints, g.plain
		g.Defaults, g.Constraints, g.plain = false, false, true
		defer func() { g.Defaults, g.Constraints, g.plain = saveD, saveC, saveP }()
		for i := 0; i < n; i++ {
			var b ast.Type
			if i >= 2 && g.UnionTailLeaves != 0 {
				saveL, saveK := g.Leaves, g.Kinds
				g.Leaves, g.Kinds = g.UnionTailLeaves, g.UnionTailLeaves
				b = g.Type(0)
				g.Leaves, g.Kinds = saveL, saveK
			} else {
				saveL := g.Leaves
				g.Leaves |= g.UnionExtraLeaves
				b = g.Type(depth - 1)
				g.Leaves = saveL
			}
			for _, prev := range br {
				// a union listing the same branch twice (or the same object twice) is outside the grammar
				// ... also when the two only differ in nullability (`T | T?` is the degenerate spelling of `T?`)
				pb := b
				pb.Nullable = prev.Nullable
				v.Assume(!v.DeepEqual(prev, pb))
				if prev.Kind == ast.KindRef && b.Kind == ast.KindRef {
					v.Assume(v.Or(prev.Ref.ReferredPkg != b.Ref.ReferredPkg, prev.Ref.ReferredType != b.Ref.ReferredType))
				}
			}
			br = append(br, b)
		}
		return g.decorate(ast.NewDisjunction(br))
	case KIntersection:
		// what `allOf` produces: an inline struct (with an optional field and an anonymous enum) and a reference
		opt := ast.NewStructField("level", g.Enum())
		opt.Required = false
		inline := ast.NewStruct(ast.NewStructField(g.FieldName(), g.Leaf()), opt)
		return ast.NewIntersection([]ast.Type{inline, g.Ref()})
	case KScalar:
		return g.Scalar()
	case KRef:
		return g.Ref()
	case KConstRef:
		return g.leafOf(KConstRef)
	case KEnum:
		return g.Enum()
	case KConstScalar:
		return g.ConstScalar()
	case KNullScalar:
		return ast.Null()
	case KSlot:
		return g.leafOf(KSlot)
	}
	return ast.String()
}

// Struct builds a struct whose fields hold types of depth <= depth. Field names are
// symbolic and assumed pairwise distinct.
func (g *Gen) Struct(depth int) ast.Type {
	n := 1 + v.Choose(g.Width)
	var fields []ast.StructField
	for i := 0; i < n; i++ {
		name := g.FieldName()
		for _, f := range fields {
			v.Assume(f.Name != name)
		}
		f := ast.NewStructField(name, g.Type(depth))
		f.Required = true
		if g.Required {
			f.Required = v.Bool("required")
		}
		fields = append(fields, f)
	}
	return ast.NewStruct(fields...)
}

// Schema builds one schema with nobj objects; object i has depth depths[i].
// Object names are symbolic and assumed pairwise distinct.
func (g *Gen) Schema(pkg string, depths ...int) *ast.Schema {
	s := ast.NewSchema(pkg, ast.SchemaMeta{})
	var names []string
	for _, d := range depths {
		name := g.Name()
		for _, prev := range names {
			v.Assume(prev != name)
		}
		names = append(names, name)
		s.AddObject(ast.NewObject(pkg, name, g.Type(d)))
	}
	return s
}

// ---------------------------------------------------------------- oracles

// RefPos is one naming position in the IR.
type RefPos struct {
	Pkg, Name string
	Where     string
}

// Collect lists every position of a type that names an object: references,
// constant references, map index and value types, enum member types,
// union/intersection branches, discriminator mapping values.
func Collect(t ast.Type, where string, out []RefPos) []RefPos {
	switch t.Kind {
	case ast.KindRef:
		if t.Ref != nil {
			out = append(out, RefPos{t.Ref.ReferredPkg, t.Ref.ReferredType, where + ":ref"})
		}
	case ast.KindConstantRef:
		if t.ConstantReference != nil {
			out = append(out, RefPos{t.ConstantReference.ReferredPkg, t.ConstantReference.ReferredType, where + ":constant_ref"})
		}
	case ast.KindArray:
		if t.Array != nil {
			out = Collect(t.Array.ValueType, where+"[]", out)
		}
	case ast.KindMap:
		if t.Map != nil {
			out = Collect(t.Map.IndexType, where+"{index}", out)
			out = Collect(t.Map.ValueType, where+"{value}", out)
		}
	case ast.KindStruct:
		if t.Struct != nil {
			for _, f := range t.Struct.Fields {
				out = Collect(f.Type, where+".field", out)
			}
		}
		// the union a struct was generated from is kept under a hint that jennies read
		if d, ok := t.Hints[ast.HintDiscriminatedDisjunctionOfRefs].(ast.DisjunctionType); ok {
			for _, b := range d.Branches {
				out = Collect(b, where+"<hint>|", out)
			}
			out = collectMapping(d, where+"<hint>", out)
		}
	case ast.KindDisjunction:
		if t.Disjunction != nil {
			for _, b := range t.Disjunction.Branches {
				out = Collect(b, where+"|", out)
			}
			out = collectMapping(*t.Disjunction, where, out)
		}
	case ast.KindIntersection:
		if t.Intersection != nil {
			for _, b := range t.Intersection.Branches {
				out = Collect(b, where+"&", out)
			}
		}
	case ast.KindEnum:
		if t.Enum != nil {
			for _, m := range t.Enum.Values {
				out = Collect(m.Type, where+"<member>", out)
			}
		}
	}
	return out
}

// collectMapping: discriminator-mapping targets are bare type names; each must be the
// name of an object one of the union's reference branches denotes (same package).
func collectMapping(d ast.DisjunctionType, where string, out []RefPos) []RefPos {
	pkg := ""
	for _, b := range d.Branches {
		if b.Kind == ast.KindRef && b.Ref != nil {
			pkg = b.Ref.ReferredPkg
			break
		}
	}
	if pkg == "" {
		return out
	}
	for _, target := range d.DiscriminatorMapping {
		out = append(out, RefPos{pkg, target, where + ":mapping"})
	}
	return out
}

// CollectSchemas lists every naming position of the schemas, entry points included.
func CollectSchemas(schemas ast.Schemas) []RefPos {
	var out []RefPos
	for _, s := range schemas {
		s.Objects.Iterate(func(name string, o ast.Object) {
			out = Collect(o.Type, s.Package+".object", out)
		})
		if s.EntryPoint != "" {
			out = append(out, RefPos{s.Package, s.EntryPoint, s.Package + ":entrypoint"})
		}
		out = Collect(s.EntryPointType, s.Package+":entrypointtype", out)
	}
	return out
}

// Exists reports (without forking) whether pkg.name is an object of the schemas.
func Exists(schemas ast.Schemas, pkg, name string) bool {
	found := false
	for _, s := range schemas {
		samePkg := s.Package == pkg
		s.Objects.Iterate(func(objName string, _ ast.Object) {
			found = v.Or(found, v.And(samePkg, objName == name))
		})
	}
	return found
}

// Loaded reports (without forking) whether pkg is one of the schemas' packages.
func Loaded(schemas ast.Schemas, pkg string) bool {
	found := false
	for _, s := range schemas {
		found = v.Or(found, s.Package == pkg)
	}
	return found
}

// AllResolve: every naming position that points into a loaded package names an existing object.
func AllResolve(schemas ast.Schemas) bool {
	ok := true
	for _, r := range CollectSchemas(schemas) {
		ok = v.And(ok, v.Or(!Loaded(schemas, r.Pkg), Exists(schemas, r.Pkg, r.Name)))
	}
	return ok
}

// HasNestedUnion reports whether a union occurs beneath a branch of another union.
func HasNestedUnion(t ast.Type, underUnion bool) bool {
	switch t.Kind {
	case ast.KindDisjunction:
		if underUnion {
			return true
		}
		for _, b := range t.Disjunction.Branches {
			if HasNestedUnion(b, true) {
				return true
			}
		}
	case ast.KindArray:
		return HasNestedUnion(t.Array.ValueType, underUnion)
	case ast.KindMap:
		return HasNestedUnion(t.Map.ValueType, underUnion)
	case ast.KindStruct:
		for _, f := range t.Struct.Fields {
			if HasNestedUnion(f.Type, underUnion) {
				return true
			}
		}
	case ast.KindIntersection:
		for _, b := range t.Intersection.Branches {
			if HasNestedUnion(b, underUnion) {
				return true
			}
		}
	}
	return false
}

// aliasCycle (no forking): objects are nodes; an alias (an object whose type is a reference)
// has an edge to the object its reference denotes, where "denotes" is given by match.
// A cycle exists iff some alias reaches itself through aliases only.
func aliasCycle(schemas ast.Schemas, match func(from *ast.Schema, ref ast.RefType, to *ast.Schema, name string) bool) bool {
	type node struct {
		s    *ast.Schema
		name string
		t    ast.Type
	}
	var nodes []node
	for _, s := range schemas {
		s.Objects.Iterate(func(name string, o ast.Object) { nodes = append(nodes, node{s, name, o.Type}) })
	}
	n := len(nodes)
	reach := make([][]bool, n)
	for i := range nodes {
		reach[i] = make([]bool, n)
		for j := range nodes {
			if nodes[i].t.Kind == ast.KindRef && nodes[j].t.Kind == ast.KindRef {
				reach[i][j] = match(nodes[i].s, *nodes[i].t.Ref, nodes[j].s, nodes[j].name)
			}
		}
	}
	// transitive closure (Warshall) over Bool terms
	for k := 0; k < n; k++ {
		for i := 0; i < n; i++ {
			for j := 0; j < n; j++ {
				reach[i][j] = v.Or(reach[i][j], v.And(reach[i][k], reach[k][j]))
			}
		}
	}
	cyclic := false
	for i := 0; i < n; i++ {
		cyclic = v.Or(cyclic, reach[i][i])
	}
	return cyclic
}

// AliasCycle: some alias's chain of references comes back to itself (A -> A, A -> B -> A).
func AliasCycle(schemas ast.Schemas) bool {
	return aliasCycle(schemas, func(_ *ast.Schema, ref ast.RefType, to *ast.Schema, name string) bool {
		return v.And(ref.ReferredPkg == to.Package, ref.ReferredType == name)
	})
}

// LocalNameCycle: the same, following references the way ast.Schema.Resolve does — by name
// inside the referring object's own schema, ignoring the referred package (p.Foo = ref q.Foo
// is looked up as p.Foo again).
func LocalNameCycle(schemas ast.Schemas) bool {
	return aliasCycle(schemas, func(from *ast.Schema, ref ast.RefType, to *ast.Schema, name string) bool {
		return v.And(from.Package == to.Package, ref.ReferredType == name)
	})
}
