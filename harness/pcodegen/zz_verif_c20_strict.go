package codegen

import (
	"strings"

	v "github.com/grafana/cog/internal/zzverif"
)

// VerifC20StrictPipeline: the pipeline file (see internal/yaml/zz_verif_c20_strict.go for the scheme);
// documents from schemas/pipeline.json, loaded with PipelineFromFile.
func VerifC20StrictPipeline() {
	count := &c20PipelineGen{inject: -1}
	count.document()
	inject := v.Choose(count.n+1) - 1
	g := &c20PipelineGen{inject: inject}
	if inject >= 0 {
		g.variant = v.Choose(3)
	}
	doc := g.document()
	_, err := PipelineFromFile(v.TempFile(v.JSONBytes(doc)))
	if inject < 0 {
		v.Assert(err == nil || !(strings.Contains(err.Error(), "not found in type") || strings.Contains(err.Error(), "already defined")),
			"C20: a key the published schema declares is rejected by the loader")
		return
	}
	v.Assert(err != nil && strings.Contains(err.Error(), "field "+g.injectedKey+" not found"), "C20: an undeclared key is not rejected by the loader")
}

// VerifC03Interpolate (C03): pipeline parameters are a Go map; `%name%` placeholders are replaced by
// ranging over it. With a parameter whose value itself holds a placeholder (`dir: '%__config_dir%/schemas'`,
// the usual way to build paths) the result must not depend on the order the map is ranged in.
func VerifC03Interpolate() {
	schemas := v.Str("schemasvalue", "%root%/schemas", "schemas")
	out := v.Str("outvalue", "%schemas%/../out", "%root%/out", "out")
	mk := func() *Pipeline {
		return &Pipeline{Parameters: map[string]string{"root": "/cfg", "schemas": schemas, "out": out}}
	}
	input := v.Str("input", "%schemas%/a.cue", "%out%", "%root%/%out%", "plain", "%unknown%")
	v.SymOrder(true)
	r1 := mk().interpolate(input)
	r2 := mk().interpolate(input)
	v.SymOrder(false)
	v.Assert(r1 == r2, "C03: the value a pipeline parameter placeholder expands to depends on map iteration order")
}
