package codegen

import (
	"strings"

	v "github.com/grafana/cog/internal/zzverif"
)

// VerifC20StrictPipeline: the pipeline file (see internal/yaml/zz_verif_c20_strict.go for the scheme);
// documents from schemas/pipeline.json, loaded with PipelineFromFile.
func VerifC20StrictPipeline() {
	count := &c20PipelineGen{inject: -1}
	count.document()
	inject := v.Choose(count.n+1) - 1
	g := &c20PipelineGen{inject: inject}
	if inject >= 0 {
		g.variant = v.Choose(3)
	}
	doc := g.document()
	_, err := PipelineFromFile(v.TempFile(v.JSONBytes(doc)))
	if inject < 0 {
		v.Assert(err == nil || !(strings.Contains(err.Error(), "not found in type") || strings.Contains(err.Error(), "already defined")),
			"C20: a key the published schema declares is rejected by the loader")
		return
	}
	v.Assert(err != nil && strings.Contains(err.Error(), "field "+g.injectedKey+" not found"), "C20: an undeclared key is not rejected by the loader")
}

// VerifC03Interpolate (C03): pipeline parameters are a Go map; `%name%` placeholders are replaced by
// ranging over it. With a parameter whose value itself holds a placeholder (`dir: '%__config_dir%/schemas'`,
// the usual way to build paths) the result must not depend on the order the map is ranged in.
func VerifC03Interpolate() {
	schemas := v.Str("schemasvalue", "%root%/schemas", "schemas")
	out := v.Str("outvalue", "%schemas%/../out", "%root%/out", "out")
	mk := func() *Pipeline {
		return &Pipeline{Parameters: map[string]string{"root": "/cfg", "schemas": schemas, "out": out}}
	}
	input := v.Str("input", "%schemas%/a.cue", "%out%", "%root%/%out%", "plain", "%unknown%")
	v.SymOrder(true)
	r1 := mk().interpolate(input)
	r2 := mk().interpolate(input)
	v.SymOrder(false)
	v.Assert(r1 == r2, "C03: the value a pipeline parameter placeholder expands to depends on map iteration order")
}

// VerifC04YAMLPipeline (C04, YAML mode): pipeline files with empty or null pieces — `inputs: [~]`, `- {}`,
// an input or language entry with no member, `languages: [~]`, null blocks — loaded with PipelineFromFile and
// taken through the steps that need no file system (parameter interpolation, OutputLanguages, jenniesConfig):
// an error or a result, never a panic.
func VerifC04YAMLPipeline() {
	obj := func(kv ...any) v.J {
		o := v.J{Kind: v.JObject}
		for i := 0; i+1 < len(kv); i += 2 {
			o.Keys = append(o.Keys, kv[i].(string))
			switch x := kv[i+1].(type) {
			case v.J:
				o.Vals = append(o.Vals, x)
			case string:
				o.Vals = append(o.Vals, v.J{Kind: v.JString, Str: x})
			}
		}
		return o
	}
	null := v.J{Kind: v.JNull}
	arr := func(items ...v.J) v.J { return v.J{Kind: v.JArray, Arr: items} }
	var input v.J
	switch v.Choose(6) {
	case 0:
		input = null
	case 1:
		input = obj()
	case 2:
		input = obj("jsonschema", null)
	case 3:
		input = obj("jsonschema", obj("path", "%dir%/x.json", "package", "p"))
	case 4:
		input = obj("if", "%cond%", "cue", obj("entrypoint", "%dir%"))
	default:
		input = obj("openapi", obj())
	}
	var lang v.J
	switch v.Choose(5) {
	case 0:
		lang = null
	case 1:
		lang = obj()
	case 2:
		lang = obj("go", null)
	case 3:
		lang = obj("go", obj("package_root", "%root%"))
	default:
		lang = obj("typescript", obj(), "python", obj())
	}
	var output v.J
	switch v.Choose(3) {
	case 0:
		output = null
	case 1:
		output = obj("directory", "%dir%/out", "languages", arr(lang))
	default:
		output = obj("directory", "out", "languages", arr(lang, lang), "templates_data", obj("k", "%root%"))
	}
	// parameters may refer to each other, to themselves (growing), or in a cycle
	doc := obj("inputs", arr(input), "output", output, "parameters",
		obj("dir", []string{"/d", "%dir%/sub", "%root%"}[v.Choose(3)], "root", []string{"r", "%dir%"}[v.Choose(2)]))
	p, err := PipelineFromFile(v.TempFile(v.JSONBytes(doc)), Parameters(map[string]string{"cond": "true"}))
	if err != nil {
		v.Reach("the loader rejected the file")
		return
	}
	if _, err := p.OutputLanguages(); err != nil {
		v.Reach("OutputLanguages returned an error")
		return
	}
	_ = p.jenniesConfig()
	v.Reach("the pipeline went through")
}
