package codegen

import (
	"strings"

	v "github.com/grafana/cog/internal/zzverif"
)

// VerifC20StrictPipeline: the pipeline file (see internal/yaml/zz_verif_c20_strict.go for the scheme);
// documents from schemas/pipeline.json, loaded with PipelineFromFile.
func VerifC20StrictPipeline() {
	count := &c20PipelineGen{inject: -1}
	count.document()
	inject := v.Choose(count.n+1) - 1
	g := &c20PipelineGen{inject: inject}
	if inject >= 0 {
		g.variant = v.Choose(3)
	}
	doc := g.document()
	_, err := PipelineFromFile(v.TempFile(v.JSONBytes(doc)))
	if inject < 0 {
		v.Assert(err == nil || !(strings.Contains(err.Error(), "not found in type") || strings.Contains(err.Error(), "already defined")),
			"C20: a key the published schema declares is rejected by the loader")
		return
	}
	v.Assert(err != nil && strings.Contains(err.Error(), "field "+g.injectedKey+" not found"), "C20: an undeclared key is not rejected by the loader")
}
