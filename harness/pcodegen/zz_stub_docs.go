package codegen

import v "github.com/grafana/cog/internal/zzverif"

// stand-in for the generated document builder (C20 generates the real one from schemas/pipeline.json);
// lets the harness file compile in runs that do not need it.
type c20PipelineGen struct {
	inject, variant, n int
	injectedKey        string
}

func (g *c20PipelineGen) document() v.J { return v.J{Kind: v.JObject} }
