package codegen

import (
	"github.com/grafana/cog/internal/ast"
	"github.com/grafana/cog/internal/jennies/golang"
	"github.com/grafana/cog/internal/jennies/java"
	jsonschemajenny "github.com/grafana/cog/internal/jennies/jsonschema"
	openapijenny "github.com/grafana/cog/internal/jennies/openapi"
	"github.com/grafana/cog/internal/jennies/php"
	"github.com/grafana/cog/internal/jennies/python"
	"github.com/grafana/cog/internal/jennies/typescript"
	"github.com/grafana/cog/internal/languages"
	v "github.com/grafana/cog/internal/zzverif"
)

// VerifC16Context (C16 at the level `cog inspect --language L` shows): what Pipeline.ContextForLanguage
// hands to the jennies — schemas after the language's chain, builders derived, veneers (none configured, or the
// debug ones) and nil checks applied — must hold builders that are the derivation of THOSE schemas: the same
// set of builders, and for every option the same name, arguments, default and assignment targets as
// BuilderGenerator.FromAST gives for the context's own schemas.
func VerifC16Context() {
	p := ast.NewSchema("p", ast.SchemaMeta{})
	opt := ast.NewStructField("label", ast.String())
	if v.Bool("labeldefault") {
		opt.Type.Default = "dflt"
	}
	var shaped ast.Type
	switch v.Choose(4) {
	case 0:
		shaped = ast.NewStruct(ast.NewStructField("inner", ast.String())) // anonymous struct: named by the chains
	case 1:
		shaped = ast.NewDisjunction(ast.Types{ast.String(), ast.NewScalar(ast.KindBool)})
	case 2:
		shaped = ast.NewRef("p", "Bar")
	default:
		shaped = ast.NewArray(ast.NewRef("p", "Bar"))
	}
	shapedField := ast.NewStructField("shaped", shaped)
	shapedField.Required = v.Bool("shapedrequired")
	p.AddObject(ast.NewObject("p", "Foo", ast.NewStruct(opt, shapedField)))
	p.AddObject(ast.NewObject("p", "Bar", ast.NewStruct(ast.NewStructField("x", ast.NewScalar(ast.KindInt64), ast.Required()))))
	schemas := ast.Schemas{p}
	var lang languages.Language
	switch v.Choose(5) {
	case 0:
		lang = golang.New(golang.Config{})
	case 1:
		lang = java.New(java.Config{})
	case 2:
		lang = php.New(php.Config{})
	case 3:
		lang = python.New(python.Config{})
	default:
		lang = typescript.New(typescript.Config{})
	}
	pl := &Pipeline{Debug: v.Bool("debug"), Output: Output{Builders: true}}
	ctx, err := pl.ContextForLanguage(lang, schemas)
	if err != nil {
		v.Reach("ContextForLanguage returned an error")
		return
	}
	want := (&ast.BuilderGenerator{}).FromAST(ctx.Schemas)
	v.Assert(len(ctx.Builders) == len(want), "C16: the builders of a language context are not the builders of the context's own schemas")
	if len(ctx.Builders) != len(want) {
		return
	}
	for i, b := range ctx.Builders {
		w := want[i]
		v.Assert(b.Name == w.Name && b.For.Name == w.For.Name && v.DeepEqualNilEmpty(b.For.Type, w.For.Type), "C16: a builder of a language context is for another object (or another version of it) than the context's schemas hold")
		v.Assert(len(b.Options) == len(w.Options), "C16: a builder of a language context has other options than the derivation of its schemas gives")
		if len(b.Options) != len(w.Options) {
			continue
		}
		for j, o := range b.Options {
			wo := w.Options[j]
			v.Assert(o.Name == wo.Name && v.DeepEqualNilEmpty(o.Args, wo.Args) && v.DeepEqualNilEmpty(o.Default, wo.Default),
				"C16: an option of a language context differs in name, arguments or default from the derivation of its schemas")
			v.Assert(len(o.Assignments) == len(wo.Assignments), "C16: an option of a language context has other assignments than the derivation of its schemas")
			for k := range o.Assignments {
				if k < len(wo.Assignments) {
					v.Assert(v.DeepEqualNilEmpty(o.Assignments[k].Path, wo.Assignments[k].Path) && v.DeepEqualNilEmpty(o.Assignments[k].Value, wo.Assignments[k].Value),
						"C16: an assignment of a language context differs in target or value from the derivation of its schemas")
				}
			}
		}
	}
}

// VerifC07OutputLanguages (C07): every language a pipeline asks for gets its own target, whichever other
// languages are asked for with it and in whichever order.
func VerifC07OutputLanguages() {
	all := []*OutputLanguage{
		{Go: &golang.Config{}}, {Java: &java.Config{}}, {PHP: &php.Config{}}, {Python: &python.Config{}}, {Typescript: &typescript.Config{}},
		{JSONSchema: &jsonschemajenny.Config{}}, {OpenAPI: &openapijenny.Config{}},
	}
	names := []string{"go", "java", "php", "python", "typescript", "jsonschema", "openapi"}
	a, b := v.Choose(len(all)), v.Choose(len(all))
	v.Assume(a != b)
	pl := &Pipeline{Output: Output{Languages: []*OutputLanguage{all[a], all[b]}}}
	targets, err := pl.OutputLanguages()
	v.Assert(err == nil, "C07: two distinct output languages are rejected")
	if err != nil {
		return
	}
	v.Assert(len(targets) == 2, "C07: a language's target disappears when another language is generated with it")
	for _, want := range []string{names[a], names[b]} {
		t, ok := targets[want]
		v.Assert(ok && t != nil && t.Name() == want, "C07: a language is registered under another language's name")
	}
}
