#!/bin/bash
# usage: trymut.sh <patch.diff> <property-id>...   : applies the patch to /repo, runs the quick checks, restores /repo
patch=$1; shift
cd /repo && git apply "$patch" || { echo "PATCH DOES NOT APPLY"; exit 3; }
cd /verif
for p in "$@"; do
  out=$(timeout 1500 ./check $p --tier ${TIER:-quick} 2>&1)
  rc=$?
  echo "== $p exit=$rc"
  echo "$out" | grep -E "^VIOLATION|^  (assert|panic|hang|frozen)|INFRASTRUCTURE|unconfirmed" | cut -c1-260 | head -8
done
git -C /repo checkout -- . ; git -C /repo status --short | head -3
