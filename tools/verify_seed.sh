#!/bin/bash
# usage: verify_seed.sh <dir with mutX_k.diff, demoX_k_test.go> <X_k>
# Confirms in a scratch worktree: suite passes with the change; demo fails with it and passes without it.
src=$1; id=$2
wt=/tmp/wtv_$id
git -C /repo worktree add -q --detach $wt HEAD || exit 3
trap "git -C /repo worktree remove --force $wt" EXIT
cd $wt
place=$(grep -m1 -o "place in: *[^ ]*" $src/demo${id}_test.go | sed 's/place in: *//')
[ -z "$place" ] && { echo "no placement line"; exit 3; }
git apply $src/mut$id.diff || { echo "PATCH FAILS"; exit 3; }
suite=$(go test -mod=mod -vet=off -count=1 ./... 2>&1 | grep -v "^ok\|no test files" | head -5)
cp $src/demo${id}_test.go $place/zz_demo_${id}_test.go
name=$(grep -m1 -o "^func Test[A-Za-z0-9_]*" $place/zz_demo_${id}_test.go | sed 's/func //')
go test -mod=mod -vet=off -count=1 -run "^${name}\$" ./$place/ >/tmp/demo_with_$id.log 2>&1; with=$?
git checkout -q -- . 
go test -mod=mod -vet=off -count=1 -run "^${name}\$" ./$place/ >/tmp/demo_without_$id.log 2>&1; without=$?
echo "$id place=$place test=$name suite_failures=[${suite}] demo_with_mutation_exit=$with demo_without_exit=$without"
