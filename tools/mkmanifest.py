#!/usr/bin/env python3
"""Regenerates /verif/MANIFEST.json from checks/registry.py (claimed checks) and
checks/not_applicable.json (reasons for the rest)."""
import json, os, sys
VERIF = os.path.dirname(os.path.dirname(os.path.abspath(__file__)))
sys.path.insert(0, os.path.join(VERIF, "checks"))
sys.argv = ["check"]
import registry

props = [json.loads(l)["id"] for l in open(os.path.join(VERIF, "properties.jsonl"))]
na = json.load(open(os.path.join(VERIF, "checks", "not_applicable.json")))
m = {
    "version": 1,
    "setup_cmd": "cd /verif && ./check --build",
    "hooks": {
        "guard": "none (harnesses are injected with go -overlay; /repo sources are never edited by the machinery)",
        "enable": "go/packages Overlay + `go test -overlay` (virtual files /repo/internal/zzverif/** and /repo/**/zz_verif_*.go)",
        "baseline_off_cmd": "cd /repo && go test -mod=mod -vet=off -count=1 -timeout 25m ./...",
        "source_commits": [],
        "add_only": True,
    },
    "engines": [{
        "name": "symgo",
        "path": "/verif/engine",
        "serves_properties": [p for p in props if p in registry.PROPERTIES],
        "kind_free_text": "path-based symbolic executor for go/ssa (x/tools v0.29.0) written for this task: concrete heap, "
                          "symbolic leaves (Bool, BitVec, FloatingPoint, finite string unions, abstract strings), every branch and "
                          "assertion decided by z3 over SMT-LIB2 (one `z3 -in` per worker), native replay of counterexamples",
    }],
    "checks": [],
    "not_applicable": [],
    "notes": "All checks use one technique: bounded symbolic execution of the real code + SMT. Bounds are stated per check in "
             "evidence.coverage.bounds and DESIGN.md section 7. Known findings: /verif/known_findings.txt.",
}
for p in props:
    if p in registry.PROPERTIES:
        s = registry.PROPERTIES[p]
        m["checks"].append({
            "property_id": p,
            "quick_cmd": "./check %s --tier quick" % p,
            "thorough_cmd": "./check %s --tier thorough" % p,
            "evidence_file": "/verif/evidence/%s.json" % p,
            "replay_cmd_template": "./check --replay {path}",
            "engine": "symgo",
            "level_claimed": {"category": "other", "text": s["level_text"], "design_ref": "DESIGN.md section 7, " + p},
            "level_note": s["level_note"],
            "technique": s.get("technique", "bounded symbolic execution of go/ssa + SMT (z3), counterexample replay against the native build"),
        })
    else:
        m["not_applicable"].append({"property_id": p, "reason": na[p]})
json.dump(m, open(os.path.join(VERIF, "MANIFEST.json"), "w"), indent=1)
print("claimed:", [c["property_id"] for c in m["checks"]])
