#!/bin/bash
# runs every claimed check (quick by default) in /verif against /repo and reports exit codes and times
tier=${1:-quick}
cd /verif
for p in $(python3 -c "import json;print(' '.join(c['property_id'] for c in json.load(open('MANIFEST.json'))['checks']))"); do
  s=$(date +%s)
  out=$(./check $p --tier $tier 2>&1); rc=$?
  e=$(( $(date +%s) - s ))
  echo "$p exit=$rc ${e}s $(echo "$out" | grep -c '^KNOWN-FINDING') known  $(echo "$out" | grep -E '^VIOLATION|INFRASTRUCTURE' | head -2 | cut -c1-160)"
done
