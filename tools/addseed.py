#!/usr/bin/env python3
"""usage: addseed.py <srcdir> <agent id e.g. C19c> <k> <property>  — confirms the change in a scratch worktree
(tools/verify_seed.sh) and stores it as seeded/<id>-<k>/ (patch.diff, demo_test.go.txt, meta.json)."""
import json, os, re, shutil, subprocess, sys
V = os.path.dirname(os.path.dirname(os.path.abspath(__file__)))
src, aid, k, prop = sys.argv[1:5]
tag = "%s_%s" % (aid, k)
out = subprocess.run([os.path.join(V, "tools", "verify_seed.sh"), src, tag], stdout=subprocess.PIPE, stderr=subprocess.STDOUT, text=True).stdout
print(out.strip())
m = re.search(r"place=(\S+) .*suite_failures=\[(.*?)\] demo_with_mutation_exit=(\d+) demo_without_exit=(\d+)", out, re.S)
if not m or m.group(2).strip() or m.group(3) == "0" or m.group(4) != "0":
    print("NOT CONFIRMED"); sys.exit(1)
d = os.path.join(V, "seeded", "%s-%s" % (aid, k))
os.makedirs(d, exist_ok=True)
shutil.copy(os.path.join(src, "mut%s.diff" % tag), os.path.join(d, "patch.diff"))
shutil.copy(os.path.join(src, "demo%s_test.go" % tag), os.path.join(d, "demo_test.go.txt"))
meta = {"breaks_property": prop,
        "origin": "fresh sub-agent (third round: told which functions earlier rounds had used, nothing from /verif) given only the property text and a scratch worktree",
        "what_it_needs_to_manifest": open(os.path.join(src, "mut%s.md" % tag)).read().strip(),
        "demo_placement": m.group(1),
        "confirmed": "tools/verify_seed.sh in a scratch worktree of /repo: with patch.diff applied `go test -mod=mod -vet=off -count=1 ./...` passes and the demo (demo_test.go.txt copied to %s/) fails; with the patch reverted the demo passes" % m.group(1),
        "detected_by": None}
json.dump(meta, open(os.path.join(d, "meta.json"), "w"), indent=1)
print("stored", d)
