#!/usr/bin/env python3
"""Prints the seeded-changes table (markdown) from seeded/*/meta.json and splices it into DESIGN.md at the SEEDTABLE marker/section."""
import json, os, re, sys
V = os.path.dirname(os.path.dirname(os.path.abspath(__file__)))
rows = []
for d in sorted(os.listdir(os.path.join(V, "seeded"))):
    mp = os.path.join(V, "seeded", d, "meta.json")
    if not os.path.exists(mp):
        continue
    m = json.load(open(mp))
    first = m["what_it_needs_to_manifest"].strip().splitlines()
    what = " ".join(l.strip() for l in first[:3])
    what = re.sub(r"\s+", " ", what)[:230]
    det = m.get("detected_by") or "— (missed)"
    rows.append("| %s | %s | %s | %s |" % (d, m["breaks_property"], what.replace("|", "\\|"), det.replace("|", "\\|")))
table = "| seed | breaks | change (needs…) | caught by |\n|---|---|---|---|\n" + "\n".join(rows)
p = os.path.join(V, "DESIGN.md")
s = open(p).read()
if "SEEDTABLE" in s:
    s = s.replace("SEEDTABLE", "<!-- seedtable:begin -->\n" + table + "\n<!-- seedtable:end -->")
else:
    s = re.sub(r"<!-- seedtable:begin -->.*?<!-- seedtable:end -->", "<!-- seedtable:begin -->\n" + table.replace("\\", "\\\\") + "\n<!-- seedtable:end -->", s, flags=re.S)
open(p, "w").write(s)
print(table)
