#!/usr/bin/env python3
import json,sys,os
V=os.path.dirname(os.path.dirname(os.path.abspath(__file__)))
seed,det=sys.argv[1],sys.argv[2]
p=os.path.join(V,'seeded',seed,'meta.json')
m=json.load(open(p)); m['detected_by']=det; json.dump(m,open(p,'w'),indent=1)
