"""Registry of checks: property id -> runs (harness files, packages, entries)."""
import importlib.util, os, sys

_here = os.path.dirname(os.path.abspath(__file__))
_spec = importlib.util.spec_from_file_location("check_driver", os.path.join(os.path.dirname(_here), "check"))
# `Run` lives in the driver script (no .py suffix): load it by path.
from importlib.machinery import SourceFileLoader
_drv = sys.modules.get("__main__")
if not hasattr(_drv, "Run"):
    _drv = SourceFileLoader("check_driver", os.path.join(os.path.dirname(_here), "check")).load_module()
Run = _drv.Run

PROPERTIES = {}

PROPERTIES["C19"] = {
    "level_text": "Bounded symbolic execution + SMT. One inductive step: from EVERY state satisfying the representation invariant "
                  "(n<=4 distinct symbolic keys, symbolic values) every operation with symbolic arguments agrees with a reference "
                  "insertion-ordered map and re-establishes the invariant, with no panic; so histories of any length are covered "
                  "up to the size bound. Bounded histories from New() cross-check the invariant. A model is replayed natively.",
    "level_note": "Bounds: n<=4 keys over a 4-letter alphabet, Map[string,int]; callbacks range over parametrised families. "
                  "sort.SliceStable, cmp.Equal are engine intrinsics (stable insertion sort, structural equality). "
                  "JSON: UnmarshalJSON is executed on symbolic documents (<=3 members, keys symbolic and possibly repeated or already present, "
                  "non-object documents, wrong value types) and MarshalJSON through a token-level model of encoding/json's Decoder (Token/More/Decode) "
                  "and Encoder/bytes.Buffer (segments) with their documented contract; derived maps (Filter/Map) must share no storage with the receiver.",
    "bounds": {
        "VerifC19Step": "one operation (set/remove/has+get/filter/map/sort x2/equal/from_map) from an arbitrary state with n<=4 (both tiers: every subset and order of the alphabet) "
                        "pairwise distinct keys over the alphabet {a,b,c,d}, values symbolic in [0,100], argument key symbolic over the same alphabet",
        "VerifC19History": "histories of 4 (quick) / 5 (thorough) symbolic operations from New()",
        "VerifC19JSONHistory": "histories of 2 (quick) / 3 (thorough) operations including JSON decode of a symbolic document and encode-decode round trips",
        "VerifC19JSONDocs": "documents that are not an object of integers (null, number, string, array, string member, fractional member)",
        "outside": "byte-level JSON syntax (escapes, whitespace, number text forms: the document is a tree); At(i) outside 0<=i<Len; value type other than int",
    },
    "assumptions": ["At(i) is only called with 0 <= i < Len() (documented precondition)",
                    "Map[string,int] instantiation; callbacks range over threshold/affine/key-equality families with symbolic parameters"],
    "runs": [Run("orderedmap", ["./internal/orderedmap"],
                 {"internal/orderedmap/zz_verif_c19.go": "harness/orderedmap/zz_verif_c19.go"},
                 ["VerifC19Step", "VerifC19History", "VerifC19JSONHistory", "VerifC19JSONDocs", "VerifC19SortStability"], "internal/orderedmap", panics="violation")],
}


ZZ_SYMIR = {"internal/zzverif/symir/symir.go": "harness/zzverif/symir/symir.go"}

def _h(*pairs):
    d = dict(ZZ_SYMIR)
    for virt, real in pairs:
        d[virt] = real
    return d

COMPILER_HARNESS = _h(("internal/ast/compiler/zz_verif_c05.go", "harness/compiler/zz_verif_c05.go"),
                      ("internal/ast/compiler/zz_verif_c07.go", "harness/compiler/zz_verif_c07.go"),
                      ("internal/ast/compiler/zz_verif_c15.go", "harness/compiler/zz_verif_c15.go"),
                      ("internal/ast/compiler/zz_verif_c05_seq.go", "harness/compiler/zz_verif_c05_seq.go"),
                      ("internal/ast/compiler/zz_verif_c03.go", "harness/compiler/zz_verif_c03.go"))

PROPERTIES["C05"] = {
    "level_text": "Bounded symbolic execution + SMT of the real passes (via compiler.Passes.Process, i.e. after the deep copy, as users run them) on "
                  "symbolic schemas: `all references resolve` is assumed for the input and asserted for the output, for every shape in the "
                  "grammar and every value of the symbolic names/parameters.",
    "level_note": "Bounds: packages p,q; <=3 objects; main object depth 1 over {scalar, ref, constant_ref, array, map, struct<=2, union of 2}; "
                  "names over {Foo,foo,Bar,...} (case variants on purpose). CUE front end and references into unloaded packages are outside the claim.",
    "bounds": {"schemas": "2 packages, <=3 objects, main object T(1), names over a case-sensitive alphabet of 3-4, pass parameters symbolic over the same alphabets"},
    "runs": lambda ctx: [Run("compiler", ["./internal/ast/compiler"], COMPILER_HARNESS,
                 ["VerifC05Rename", "VerifC05Prefix", "VerifC05Duplicate", "VerifC05Unspec", "VerifC05ReplaceReference", "VerifC05AllowedObjects", "VerifC05Sequence", "VerifC05AfterUnionToStruct"],
                 "internal/ast/compiler", needs_leaf=True)]
             + [Run("chains", ["./internal/zzverif/hchains"], CHAINS_HARNESS,
                    ["VerifC05ChainGo", "VerifC05ChainJava", "VerifC05ChainPHP", "VerifC05ChainPython", "VerifC05ChainTypeScript",
                     "VerifC05ChainGoStructUnion", "VerifC05ChainJavaStructUnion", "VerifC05ChainPHPStructUnion", "VerifC05ChainPythonStructUnion", "VerifC05ChainTypeScriptStructUnion"],
                    "internal/zzverif/hchains", test_pkg_name="hchains", needs_leaf=True,
                    quick_entries=["VerifC05ChainGo", "VerifC05ChainJava", "VerifC05ChainPHP", "VerifC05ChainPython", "VerifC05ChainTypeScript",
                                   "VerifC05ChainJavaStructUnion", "VerifC05ChainPHPStructUnion"])],
}


# ---------------------------------------------------------------- C18

def _c18_prepare(tmp, tier):
    import subprocess
    drv = _drv
    gen = os.path.join(tmp, "zz_verif_c18_gen.go")
    lst = os.path.join(tmp, "c18_entries.txt")
    subprocess.run([os.path.join(drv.BUILD, "symgo"), "-dir", drv.REPO, "-gen-deepcopy", gen, "-gen-list", lst,
                    "-pkgs", "./internal/ast,./internal/ast/compiler,./internal/orderedmap,./internal/veneers/...,./internal/languages,./internal/codegen"],
                   check=True, env=drv.ENV)
    return {"gen": gen, "entries": [l.strip() for l in open(lst) if l.strip()]}

def _c18_runs(ctx):
    return [Run("deepcopy", ["./internal/zzverif/hast"],
                _h(("internal/zzverif/hast/zz_verif_c18.go", "harness/hast/zz_verif_c18.go"),
                   ("internal/zzverif/hast/zz_verif_c18_gen.go", ctx["gen"])),
                ctx["entries"], "internal/zzverif/hast", test_pkg_name="hast")]

PROPERTIES["C18"] = {
    "level_text": "Bounded symbolic execution + SMT. For EVERY method named DeepCopy that go/types finds in cog's IR packages on this run, an arbitrary value "
                  "of the receiver type is built from its declared fields (every leaf a solver variable, every pointer/slice/map populated down to the depth bound; "
                  "nil-ness and lengths forked at the top level), the real DeepCopy is executed with the receiver frozen, and the solver decides (i) field-wise "
                  "equality of copy and original in every declared field (dynamic types included) and the engine decides (ii) that copy and original share no mutable heap object.",
    "level_note": "Bounds: 4 (quick) / 6 (thorough) indirections, slices of length 2, maps of one entry, `any` over {string,int64,bool,[]any,map[string]any}. "
                  "The field list is read from go/types at run time. nil and empty collections are identified.",
    "bounds": {"depth": "4/6 indirections", "collections": "slice length 2 (0..2 forked at top level), map 1 entry", "strings": "{a,b,c}", "ints": "[0,3]"},
    "prepare": _c18_prepare,
    "runs": _c18_runs,
}


# ---------------------------------------------------------------- chains (C06, and the chain parts of C05/C07/C04)

CHAINS_HARNESS = _h(("internal/zzverif/hchains/zz_verif_chains.go", "harness/hchains/zz_verif_chains.go"),
                    ("internal/zzverif/hchains/zz_verif_c03.go", "harness/hchains/zz_verif_c03.go"),
                    ("internal/zzverif/hchains/zz_verif_chains2.go", "harness/hchains/zz_verif_chains2.go"))

PROPERTIES["C06"] = {
    "level_text": "Bounded symbolic execution + SMT of each language's REAL pass chain ((*Language).CompilerPasses() of go/java/php/python/typescript, run through "
                  "compiler.Passes.Process) on symbolic schemas; the language's normal-form predicate (no union / enums and structs only as named objects / "
                  "non-required => nullable / no `T|null` union / enum member naming) is asserted at every depth of every object of the result.",
    "level_note": "Bounds: one package, 3 objects; main object over the grammar {scalar, constant, null, ref, enum, array, map, struct<=2, union of 2} at depth 1 (quick) / 2 (thorough) "
                  "plus a width-1 deep-spine family of depth 2/3; Nullable/Required symbolic. Chains that return an error are outside the property. User-supplied final passes are outside.",
    "bounds": {"main object": "T(1) quick / T(2) thorough + deep spine 2/3", "objects": 3, "leaves": "Nullable, Required, scalar kind, enum member names/values symbolic"},
    "runs": [Run("chains", ["./internal/zzverif/hchains"], CHAINS_HARNESS,
                 ["VerifC06Go", "VerifC06Java", "VerifC06PHP", "VerifC06Python", "VerifC06TypeScript",
                  "VerifC06GoSpine", "VerifC06JavaSpine", "VerifC06PHPSpine", "VerifC06PythonSpine",
                  "VerifC06GoIntersection", "VerifC06JavaIntersection", "VerifC06PHPIntersection", "VerifC06PythonIntersection",
                  "VerifC06GoConstants", "VerifC06JavaConstants", "VerifC06PHPConstants", "VerifC06PythonConstants", "VerifC06TypeScriptConstants",
                  "VerifC06GoStructUnion", "VerifC06JavaStructUnion", "VerifC06PHPStructUnion", "VerifC06PythonStructUnion",
                  "VerifC06GoUnionTwice", "VerifC06JavaUnionTwice", "VerifC06PHPUnionTwice", "VerifC06PythonUnionTwice",
                  "VerifC06GoIntersectionUnion", "VerifC06JavaIntersectionUnion",
                  "VerifC06GoIntConstants", "VerifC06JavaIntConstants", "VerifC06PHPIntConstants", "VerifC06PythonIntConstants", "VerifC06GoEnumObjectNames",
                  "VerifC06GoNullOrder", "VerifC06JavaNullOrder", "VerifC06PHPNullOrder", "VerifC06PythonNullOrder"],
                 "internal/zzverif/hchains", test_pkg_name="hchains", needs_leaf=True,
                 quick_entries=["VerifC06Go", "VerifC06Java", "VerifC06PHP", "VerifC06Python", "VerifC06TypeScript",
                  "VerifC06GoSpine", "VerifC06JavaSpine", "VerifC06PHPSpine", "VerifC06PythonSpine",
                  "VerifC06GoIntersection", "VerifC06JavaIntersection", "VerifC06PHPIntersection", "VerifC06PythonIntersection",
                  "VerifC06GoConstants", "VerifC06JavaConstants", "VerifC06PHPConstants", "VerifC06PythonConstants", "VerifC06TypeScriptConstants",
                  "VerifC06GoStructUnion", "VerifC06PythonStructUnion",
                  "VerifC06GoUnionTwice", "VerifC06JavaUnionTwice", "VerifC06PHPUnionTwice", "VerifC06PythonUnionTwice",
                  "VerifC06GoIntersectionUnion", "VerifC06JavaIntersectionUnion",
                  "VerifC06GoIntConstants", "VerifC06JavaIntConstants", "VerifC06PHPIntConstants", "VerifC06PythonIntConstants", "VerifC06GoEnumObjectNames",
                  "VerifC06GoNullOrder", "VerifC06JavaNullOrder", "VerifC06PHPNullOrder", "VerifC06PythonNullOrder"])],
}


HAST_HARNESS = _h(("internal/zzverif/hast/zz_verif_c18.go", "harness/hast/zz_verif_c18.go"),
                  ("internal/zzverif/hast/zz_verif_c07_merge.go", "harness/hast/zz_verif_c07_merge.go"),
                  ("internal/zzverif/hast/zz_verif_c16.go", "harness/hast/zz_verif_c16.go"))

PROPERTIES["C07"] = {
    "level_text": "Bounded symbolic execution + SMT. (1) Non-mutation: every heap object reachable from the symbolic input schemas is frozen, then each language's real pass chain and "
                  "each user transformation (symbolic parameters) is run through compiler.Passes.Process; any store into a frozen object on any path is the violation (stronger than a "
                  "snapshot comparison). (2) Merge: ast.Schemas.Consolidate on 2-3 symbolic schemas is union-or-error (no definition dropped, altered, invented or duplicated; "
                  "conflicts always error). (3) Consolidate is independent of the order of inputs of different packages.",
    "level_note": "Bounds: schemas as in C05/C06 (T(1) main object), merge inputs of <=2 objects over {Foo,Bar} in packages {p,q}. File-level statements of the property "
                  "(generated files identical alone vs. together, unreferenced extra input) are outside the claim: file contents come from text/template jennies. "
                  "Map iteration order is fixed (order dependence is C03's subject).",
    "bounds": {"frozen": "T(1) main object + 2 struct objects, 5 language chains, 19 user transformations", "merge": "2 (quick) / 3 (thorough) schemas, <=2 objects each"},
    "runs": [Run("chains", ["./internal/zzverif/hchains"], CHAINS_HARNESS,
                 ["VerifC07FrozenGo", "VerifC07FrozenJava", "VerifC07FrozenPHP", "VerifC07FrozenPython", "VerifC07FrozenTypeScript"],
                 "internal/zzverif/hchains", test_pkg_name="hchains", needs_leaf=True,
                 quick_entries=["VerifC07FrozenGo", "VerifC07FrozenJava", "VerifC07FrozenTypeScript"]),
             Run("packages", ["./internal/zzverif/hchains"], CHAINS_HARNESS,
                 ["VerifC07TwoPackagesGo", "VerifC07TwoPackagesJava", "VerifC07TwoPackagesPHP", "VerifC07TwoPackagesPython", "VerifC07Pipeline"],
                 "internal/zzverif/hchains", test_pkg_name="hchains", needs_leaf=True),
             Run("compiler", ["./internal/ast/compiler"], COMPILER_HARNESS, ["VerifC07UserPasses"], "internal/ast/compiler", needs_leaf=True),
             Run("merge", ["./internal/zzverif/hast"], HAST_HARNESS, ["VerifC07Merge", "VerifC07InputOrder"], "internal/zzverif/hast", test_pkg_name="hast")],
}


PROPERTIES["C04"] = {
    "level_text": "Bounded symbolic execution + SMT. Every implicit run-time panic condition of Go (nil dereference, index/slice out of range, failed type assertion, "
                  "nil-map write, negative make, division by zero) and every explicit panic on every explored path of the real code is a violation; recursion and step "
                  "bounds detect divergence. Inputs: symbolic IR through every language chain, every user transformation with symbolic parameters, the ordered map, "
                  "builder derivation and veneers (as they are added to the other checks).",
    "level_note": "Bounds as in the reused harnesses (C05/C06/C07/C15/C16/C17/C19). Byte-level parsing (JSON/YAML/CUE libraries), the CUE front end and text/template "
                  "execution are outside the claim: cog code only sees decoded structs, which is what is made symbolic. YAML mode: schema-transformation files whose IR types are "
                  "ill-formed (kind without its definition / with another kind's definition / unknown kind, in retype_field, add_fields, add_object, retype_object) and "
                  "builder-transformation files with malformed paths, empty assignment values, envelopes on non-struct targets, absent builders and options are loaded by the real "
                  "loaders (yaml.v3 decoding is the engine's contract-level model), applied, and followed by the Go chain / builder derivation / nil-check generation.",
    "bounds": {"inputs": "same symbolic inputs as C05, C06, C07, C19 harnesses, panics judged instead of assertions", "recursion": "150 frames", "steps": "2e6 per path",
               "yaml mode": "one typed pass per file x 11 kinds x {well-formed, member missing, member of another kind}; one veneer rule per file over 10 paths x 4 value shapes x 5 methods"},
    "runs": lambda ctx: [
             Run("chains", ["./internal/zzverif/hchains"], CHAINS_HARNESS,
                 ["VerifC06Go", "VerifC06Java", "VerifC06PHP", "VerifC06Python", "VerifC06TypeScript", "VerifC06GoSpine", "VerifC06JavaSpine", "VerifC06PHPSpine", "VerifC06PythonSpine",
                  "VerifC06GoIntConstants", "VerifC06JavaIntConstants", "VerifC06PHPIntConstants", "VerifC06PythonIntConstants", "VerifC06GoUnionTwice", "VerifC06GoIntersectionUnion", "VerifC06JavaIntersectionUnion", "VerifC06GoConstants", "VerifC06PHPConstants", "VerifC06GoIntersection", "VerifC06GoStructUnion", "VerifC06JavaStructUnion"],
                 "internal/zzverif/hchains", test_pkg_name="hchains", needs_leaf=True, panics="violation", judge="panic",
                 quick_entries=["VerifC06Go", "VerifC06Java", "VerifC06PHP", "VerifC06Python", "VerifC06GoSpine", "VerifC06PHPSpine",
                  "VerifC06GoIntConstants", "VerifC06JavaIntConstants", "VerifC06PHPIntConstants", "VerifC06PythonIntConstants", "VerifC06GoUnionTwice", "VerifC06GoIntersectionUnion", "VerifC06JavaIntersectionUnion", "VerifC06GoConstants", "VerifC06PHPConstants", "VerifC06GoIntersection", "VerifC06GoStructUnion", "VerifC06JavaStructUnion"]),
             Run("compiler", ["./internal/ast/compiler"], COMPILER_HARNESS,
                 ["VerifC07UserPasses", "VerifC05Rename", "VerifC05Prefix", "VerifC05Duplicate", "VerifC05Unspec", "VerifC05ReplaceReference", "VerifC05AllowedObjects"],
                 "internal/ast/compiler", needs_leaf=True, panics="violation", judge="panic", quick_entries=["VerifC07UserPasses", "VerifC05AllowedObjects", "VerifC05Duplicate"]),
             Run("orderedmap", ["./internal/orderedmap"], {"internal/orderedmap/zz_verif_c19.go": "harness/orderedmap/zz_verif_c19.go"},
                 ["VerifC19Step", "VerifC19History", "VerifC19JSONHistory", "VerifC19JSONDocs", "VerifC19SortStability"], "internal/orderedmap", panics="violation", judge="panic"),
             Run("jsonschema_jenny", ["./internal/jennies/jsonschema"], _h(("internal/jennies/jsonschema/zz_verif_c12.go", "harness/jjsonschema/zz_verif_c12.go")),
                 ["VerifC12GenerateSchema"], "internal/jennies/jsonschema", test_pkg_name="jsonschema", needs_leaf=True, panics="violation", judge="panic"),
             Run("hast", ["./internal/zzverif/hast"], HAST_HARNESS, ["VerifC16FromAST"], "internal/zzverif/hast", test_pkg_name="hast", panics="violation", judge="panic"),
             Run("veneers", ["./internal/zzverif/hveneers"], VENEERS_HARNESS, ["VerifC17OptionRule", "VerifC17BuilderRule", "VerifC17MergeInto", "VerifC17OptionRulePair", "VerifC17ArityPair", "VerifC17RenameThenInitialize", "VerifC17SelectorsAfterBuilderRules", "VerifC17RuleSetsOrder"],
                 "internal/zzverif/hveneers", test_pkg_name="hveneers", needs_leaf=True, panics="violation", judge="panic")],
}


C15_ENTRIES = ["VerifC15RenameObject", "VerifC15Omit", "VerifC15OmitFields", "VerifC15AddFields", "VerifC15AddObject", "VerifC15DuplicateObject",
               "VerifC15RetypeObject", "VerifC15RetypeField", "VerifC15FieldsSetRequired", "VerifC15FieldsSetNotRequired", "VerifC15FieldsSetDefault",
               "VerifC15ReplaceReference", "VerifC15ConstantToEnum", "VerifC15TrimEnumValues", "VerifC15HintObject", "VerifC15SchemaSetIdentifier",
               "VerifC15SchemaSetEntryPoint", "VerifC15PrefixObjectNames", "VerifC15AppendComment"]

PROPERTIES["C15"] = {
    "level_text": "Bounded symbolic execution + SMT. Each of the 19 user-configurable transformations is run (through compiler.Passes.Process) on symbolic schemas with symbolic "
                  "parameters (targets that differ in case, are absent, or live in another or an unloaded package arise by themselves) and compared, modulo debug trails, with an "
                  "in-harness reference model written from the reference documentation; the comparison covers the whole result, so it is also the frame condition "
                  "(every other object, field, comment, default and ordering untouched; absent target => unchanged).",
    "level_note": "Bounds: packages p,q (+unloaded ext as a target); 3 objects; main object T(1) over {scalar, ref, array, struct<=2, union of 2} (+constants/enums/constant refs where the "
                  "transformation is about them); names over {Foo,foo,Bar}, fields over {a,A,b}; Nullable/Required symbolic. Reference semantics: DESIGN.md appendix A.",
    "bounds": {"schemas": "2 packages, 3 objects, main object T(1)", "parameters": "symbolic over the same case-sensitive alphabets plus absent names and an unloaded package"},
    "runs": [Run("compiler", ["./internal/ast/compiler"], COMPILER_HARNESS, C15_ENTRIES, "internal/ast/compiler", needs_leaf=True)],
}


PROPERTIES["C16"] = {
    "level_text": "Bounded symbolic execution + SMT of ast.BuilderGenerator.FromAST on symbolic schemas (structs, aliases ref->struct and ref->ref, constants, references to "
                  "constants in the other package, constant references, defaults, constraints; Required/Nullable symbolic) against a reference derivation written from the "
                  "property statement: the set of builders, each constructor constant, each option (name, single argument, default, assignment path, constraints) compared field by field.",
    "level_note": "Bounds: 2 packages x 3 objects, struct of <=2 fields over 6 field kinds, names over {S,A,K}. Inputs are assumed reference-closed and acyclic here "
                  "(dangling references and cycles are C04's subject).",
    "bounds": {"schemas": "2 packages, 6 objects, struct<=2 fields x 6 kinds", "leaves": "Required, Nullable, default, constraint op/arg, scalar kind, reference targets symbolic"},
    "runs": [Run("hast", ["./internal/zzverif/hast"], HAST_HARNESS, ["VerifC16FromAST"], "internal/zzverif/hast", test_pkg_name="hast")],
}


VENEERS_HARNESS = _h(("internal/zzverif/hveneers/zz_verif_c17.go", "harness/hveneers/zz_verif_c17.go"),
                     ("internal/zzverif/hveneers/zz_verif_c17_more.go", "harness/hveneers/zz_verif_c17_more.go"),
                     ("internal/zzverif/hveneers/zz_verif_c09_nilchecks.go", "harness/hveneers/zz_verif_c09_nilchecks.go"),
                     ("internal/zzverif/hveneers/zz_verif_c14.go", "harness/hveneers/zz_verif_c14.go"),
                     ("internal/zzverif/hveneers/zz_verif_c13_ctx.go", "harness/hveneers/zz_verif_c13_ctx.go"),
                     ("internal/zzverif/hveneers/zz_verif_c14_more.go", "harness/hveneers/zz_verif_c14_more.go"),
                     ("internal/zzverif/hveneers/zz_verif_c17_seq.go", "harness/hveneers/zz_verif_c17_seq.go"))

PROPERTIES["C17"] = {
    "level_text": "Bounded symbolic execution + SMT of rewrite.Rewriter.ApplyTo with one option rule (11 actions) or one builder rule (5 rules) and a symbolic selector, on builders "
                  "derived by the REAL BuilderGenerator.FromAST from schemas whose field kinds are forked (string/array/map/bool/ref-to-struct/anonymous struct/union) and whose "
                  "flags are symbolic. Asserted on every path: every assignment path is a type-matching chain of existing fields; every argument an assignment (value, index, envelope, "
                  "constraint) uses is declared by its option or the constructor; unselected builders/options are unchanged and in place; each rule's documented contract "
                  "(omit removes, rename only renames, duplicate = identical copy incl. defaults and factories and no shared structure, array_to_append/map_to_index/unfold_boolean/"
                  "struct_fields_as_arguments/options/disjunction_as_options still assign the same target).",
    "level_note": "Bounds: one package, builders Bar/Foo/foo, Foo with 2 fields over 7 kinds; one rule per run (rule sequences are outside the quick bound); "
                  "merge_into/compose/initialize/add_option/add_factory rules are not covered yet. Reference contracts: DESIGN.md appendix B.",
    "bounds": {"builders": "3 (derived by FromAST), Foo: 2 fields x 7 kinds", "rules": "11 option actions + 5 builder rules, one at a time, selector names symbolic incl. case variants and absent names"},
    "runs": [Run("veneers", ["./internal/zzverif/hveneers"], VENEERS_HARNESS, ["VerifC17OptionRule", "VerifC17BuilderRule", "VerifC17MergeInto", "VerifC17OptionRulePair", "VerifC17ArityPair", "VerifC17RenameThenInitialize", "VerifC17SelectorsAfterBuilderRules", "VerifC17RuleSetsOrder"],
                 "internal/zzverif/hveneers", test_pkg_name="hveneers", needs_leaf=True,
                 allow_unreached=["C17: merge_into lost the destination builder", "C17: merge_into dropped a source option"])],
}


PROPERTIES["C03"] = {
    "report_mapranges": True,
    "level_text": "Bounded symbolic execution + SMT with the map-iteration order made symbolic: at every `range` over a map the solver-controlled engine forks over every remaining "
                  "entry (all n! orders the Go specification permits, a superset of what one runtime does). Self-composition: each language's real pass chain, "
                  "Schemas.Consolidate and fields_set_default are run twice on clones of one symbolic input and the two results must be deep-equal.",
    "level_note": "Bounds: T(1) main object + two struct objects with one or two constant discriminator candidates; maps of <=3 entries. Claimed up to the IR handed to the jennies: "
                  "map-range sites inside jennies/template helpers feed text/template and are outside (listed as uncovered). A counterexample is confirmed natively by repeating the "
                  "run (fresh maps) until two different results are observed.",
    "bounds": {"orders": "every permutation of every ranged map on the path (maps <= 3 entries)", "inputs": "T(1) main object, 2 candidate discriminator fields, 3 schemas for Consolidate, 2 colliding defaults"},
    "runs": [Run("chains", ["./internal/zzverif/hchains"], CHAINS_HARNESS,
                 ["VerifC03Go", "VerifC03Java", "VerifC03PHP", "VerifC03Python", "VerifC03TypeScript", "VerifC03Consolidate", "VerifC03FieldsSetDefault"],
                 "internal/zzverif/hchains", test_pkg_name="hchains", needs_leaf=True, repeat=400)],
}


# ---------------------------------------------------------------- C20

def _c20_prepare(tmp, tier):
    import subprocess
    drv = _drv
    gen = os.path.join(tmp, "zz_verif_c20_gen.go")
    lst = os.path.join(tmp, "c20_entries.txt")
    subprocess.run([os.path.join(drv.BUILD, "symgo"), "-dir", drv.REPO, "-gen-unions", gen, "-gen-list", lst,
                    "-pkgs", "./internal/yaml,./internal/codegen"], check=True, env=drv.ENV)
    # documents declaring every key path of the published schemas (regenerated from /repo's current schemas/*.json)
    docs = {}
    for schema, pkg, prefix in (("compiler_passes", "yaml", "c20Passes"), ("veneers", "yaml", "c20Veneers"), ("pipeline", "codegen", "c20Pipeline")):
        out = os.path.join(tmp, "zz_verif_c20_docs_%s.go" % schema)
        subprocess.run([sys.executable, os.path.join(drv.VERIF, "tools", "gen_configdocs.py"), os.path.join(drv.REPO, "schemas", schema + ".json"),
                        pkg, prefix, out, "github.com/grafana/cog/internal/zzverif"], check=True, stdout=subprocess.DEVNULL)
        docs[schema] = out
    return {"gen": gen, "entries": [l.strip() for l in open(lst) if l.strip()], "docs": docs}

def _c20_runs(ctx):
    return [Run("strict_yaml", ["./internal/yaml"],
                {"internal/yaml/zz_verif_c20_strict.go": "harness/pyaml/zz_verif_c20_strict.go",
                 "internal/yaml/zz_verif_c20_docs_passes.go": ctx["docs"]["compiler_passes"],
                 "internal/yaml/zz_verif_c20_docs_veneers.go": ctx["docs"]["veneers"]},
                ["VerifC20StrictPasses", "VerifC20StrictVeneers"], "internal/yaml", needs_leaf=True),
            Run("strict_pipeline", ["./internal/codegen"],
                {"internal/codegen/zz_verif_c20_strict.go": "harness/pcodegen/zz_verif_c20_strict.go",
                 "internal/codegen/zz_verif_c20_docs_pipeline.go": ctx["docs"]["pipeline"]},
                ["VerifC20StrictPipeline"], "internal/codegen", needs_leaf=True),
            Run("yaml", ["./internal/zzverif/hyaml"],
                _h(("internal/zzverif/hyaml/zz_verif_c20.go", "harness/hyaml/zz_verif_c20.go"),
                   ("internal/zzverif/hyaml/zz_verif_c20_gen.go", ctx["gen"])),
                ctx["entries"] + ["VerifC20ObjectReference", "VerifC20FieldReference"], "internal/zzverif/hyaml", test_pkg_name="hyaml", needs_leaf=True)]

PROPERTIES["C20"] = {
    "level_text": "Bounded symbolic execution + SMT of the hand-written configuration unions: for EVERY struct of internal/yaml whose fields are all pointers and that has an "
                  "As*(...) (T, error) dispatch method (list and member list read from go/types on this run: CompilerPass, BuilderRule, OptionRule, BuilderSelector, OptionSelector) "
                  "the value is built with no member or exactly one member set (populated to depth 3, leaves symbolic): no member => error; a declared member is never rejected as "
                  "`empty ...` and is dispatched to the action of its own type. Reference-string parsers: wrong number of dots => error, accepted strings round-trip.",
    "level_note": "The claim is exact for the finite union structure. Strictness: the three loaders (CompilerLoader.Load, VeneersLoader.load, PipelineFromFile) are executed on the "
                  "document that declares EVERY key path of the corresponding PUBLISHED schema (schemas/*.json, read from /repo on every run; recursive definitions unfolded twice), "
                  "unmodified (no declared key may be rejected) and with one undeclared member (fresh key / other capitalisation / near miss of a declared key) injected at each "
                  "mapping node whose keys the schema fixes (the loader must fail naming that key). gopkg.in/yaml.v3 decoding is an engine model of its documented contract "
                  "(field matching by tag or lower-cased name, inline, KnownFields, custom UnmarshalYAML executed for real, Node.Decode starts a non-strict decoder). These runs "
                  "enumerate paths (node x key variant) and use no solver variables. Outside: keys the loaders accept that the schemas do not declare; YAML surface syntax.",
    "bounds": {"unions": "none or exactly one member set, member payloads populated to depth 3 with symbolic leaves", "reference strings": "10 shapes incl. empty, leading/trailing/double dots, too many components",
               "strict decoding": "every mapping node of the full document of each published schema (672 + 1845 + 24 nodes today) x 3 injected-key variants; recursive definitions unfolded twice"},
    "prepare": _c20_prepare,
    "runs": _c20_runs,
}


# ---------------------------------------------------------------- stage 1: generated Go code (C08, C09, C13)

GEN_PIPELINE = """debug: false
inputs:
  - jsonschema:
      path: '%(verif)s/corpus/c08/constraints.json'
      package: constraints
  - jsonschema:
      path: '%(verif)s/corpus/c09/widgets.json'
      package: widgets
  - jsonschema:
      path: '%(verif)s/corpus/c08/aliases.json'
      package: aliases
  - jsonschema:
      path: '%(verif)s/corpus/c13/shapes.json'
      package: shapes
  - cue:
      entrypoint: '%(verif)s/corpus/cue/common'
  - cue:
      entrypoint: '%(verif)s/corpus/cue/panel'
      cue_imports:
        - '%(verif)s/corpus/cue/common:verif.example/common'
  - cue:
      entrypoint: '%(repo)s/testdata/schemas/validation'
  - cue:
      entrypoint: '%(repo)s/testdata/schemas/equality'
  - cue:
      entrypoint: '%(repo)s/testdata/schemas/defaults'
output:
  directory: '%(out)s'
  types: true
  builders: true
  languages:
    - go:
        package_root: 'verifgen'
        generate_json_marshaller: true
        generate_strict_unmarshaller: true
        generate_equal: true
        generate_validate: true
"""

GEN_PIPELINE_SLOTS = """debug: false
inputs:
  - jsonschema:
      path: '%(verif)s/corpus/c13/slots.json'
      package: slots
transformations:
  schemas:
    - '%(verif)s/corpus/c13/slots_passes.yaml'
output:
  directory: '%(out)s'
  types: true
  builders: false
  languages:
    - go:
        package_root: 'verifgen'
        generate_json_marshaller: false
        generate_strict_unmarshaller: false
        generate_equal: true
        generate_validate: true
"""

def _gen_prepare(tmp, tier):
    """Stage 1: build cog's CLI from /repo's current tree and let the REAL generator emit Go code for the corpus."""
    import subprocess
    drv = _drv
    cog = os.path.join(tmp, "cog")
    drv.sh(["go", "build", "-o", cog, "./cmd/cli"], cwd=drv.REPO)
    out = os.path.join(tmp, "gen")
    cfg = os.path.join(tmp, "pipeline.yaml")
    open(cfg, "w").write(GEN_PIPELINE % {"verif": drv.VERIF, "repo": drv.REPO, "out": out})
    drv.sh([cog, "generate", "--config", cfg], cwd=tmp)
    # second pipeline: composable (dataquery) slots. They only arise through a user transformation
    # (retype_field ... composable_slot), their JSON (un)marshalling needs templates cog does not ship
    # (so it is switched off here) and their Go runtime interface is the repository's own
    # testdata/generated/cog/variants/variants.go (emitted by the GoVariantsPlugins jenny).
    variants = os.path.join(drv.REPO, "testdata", "generated", "cog", "variants", "variants.go")
    if os.path.exists(variants):
        cfg2 = os.path.join(tmp, "pipeline_slots.yaml")
        open(cfg2, "w").write(GEN_PIPELINE_SLOTS % {"verif": drv.VERIF, "repo": drv.REPO, "out": out})
        drv.sh([cog, "generate", "--config", cfg2], cwd=tmp)
        os.makedirs(os.path.join(out, "cog", "variants"), exist_ok=True)
        import shutil
        shutil.copy(variants, os.path.join(out, "cog", "variants", "variants.go"))
    open(os.path.join(out, "go.mod"), "w").write("module verifgen\n\ngo 1.23\n")
    drv.sh(["go", "build", "./..."], cwd=out)   # a corpus entry whose output does not type-check is C02's subject
    return {"gen": out}

def _gen_run(ctx, name, pkg, files, entries, **kw):
    harness = {}
    for virt, real in files:
        harness[virt] = real
    return Run(name, ["./" + pkg], harness, entries, pkg, module_dir=ctx["gen"], undertest="verifgen", module_path="verifgen", **kw)

def _c08_runs(ctx):
    return [_gen_run(ctx, "constraints", "constraints", [("constraints/zz_verif_c08.go", "harness/gen/constraints/zz_verif_c08.go"),
                                                         ("constraints/zz_verif_c08_strict.go", "harness/gen/constraints/zz_verif_c08_strict.go")],
                     ["VerifC08Validate", "VerifC08StrictChild", "VerifC08StrictTop", "VerifC08StrictRoot"]),
            _gen_run(ctx, "validation", "validation", [("validation/zz_verif_c08.go", "harness/gen/validation/zz_verif_c08.go")], ["VerifC08ValidateDashboard"]),
            _gen_run(ctx, "shapes", "shapes", [("shapes/zz_verif_c08.go", "harness/gen/shapes/zz_verif_c08.go")], ["VerifC08ValidateShapes"]),
            _gen_run(ctx, "crosspackage", "panel", [("panel/zz_verif_c08.go", "harness/gen/panel/zz_verif_c08.go")], ["VerifC08CrossPackage"]),
            _gen_run(ctx, "aliases", "aliases", [("aliases/zz_verif_c08.go", "harness/gen/aliases/zz_verif_c08.go")], ["VerifC08AliasValidate", "VerifC08AliasStrict"])]

PROPERTIES["C08"] = {
    "level_text": "Two-stage, bounded symbolic execution + SMT. Stage 1 (concrete): cog's CLI is built from /repo's current tree and the REAL generator emits Go types for the corpus. "
                  "Stage 2 (symbolic): the emitted Validate() methods are executed symbolically on an arbitrary value (ints = bit-vectors of the Go width, the float an IEEE double, strings "
                  "abstract with symbolic rune/byte length, optional pointers and collection lengths forked, map keys over a small alphabet); the solver decides that an error is returned "
                  "iff the oracle written from the source schema says a constraint is violated, and that exactly the offending paths are reported. Strict decoder: the generated "
                  "UnmarshalJSONStrict methods are executed on a SYMBOLIC JSON TREE (for every declared member a presence choice and a value of any JSON kind - null, bool, integral or "
                  "fractional number, string, array, object - plus an optional undeclared member; nested objects, arrays and maps of objects likewise); encoding/json.Unmarshal is an engine "
                  "intrinsic with the documented contract per Go target type; the solver decides reject <=> undeclared member, missing required member, null for a required member, or wrong JSON type.",
    "level_note": "The schema dimension is a finite corpus (corpus/c08/constraints.json: constraints on field, optional field, array item, map value, referenced struct, optional reference, "
                  "array/map of references, nested anonymous struct; plus the repository's validation.cue); the value dimension is decided by the solver. Collections <= 2 entries. "
                  "Trusted: the contract given to encoding/json.Unmarshal for the leaf types (string, bool, intN with range and integrality, floats, slices, string-keyed maps, structs by tag, any, "
                  "json.RawMessage); numeric text forms (exponents, float64 overflow) and multipleOf are outside.",
    "bounds": {"corpus": ["corpus/c08/constraints.json (Root, Child, inner struct)", "testdata/schemas/validation/validation.cue"], "collections": "<=2 entries", "ints": "full 64-bit range", "strings": "abstract: any string (rune/byte lengths symbolic)"},
    "prepare": _gen_prepare,
    "runs": _c08_runs,
}


def _c13_prepare(tmp, tier):
    import subprocess
    drv = _drv
    ctx = _gen_prepare(tmp, tier)
    hdir = os.path.join(tmp, "c13h")
    os.makedirs(hdir, exist_ok=True)
    lst = os.path.join(tmp, "c13_entries.txt")
    subprocess.run([os.path.join(drv.BUILD, "symgo"), "-dir", ctx["gen"], "-gen-equals", hdir, "-gen-list", lst, "-modpath", "verifgen",
                    "-pkgs", "./equality,./constraints,./validation,./defaults,./widgets,./shapes,./aliases,./panel,./common" + (",./slots" if os.path.isdir(os.path.join(ctx["gen"], "slots")) else "")], check=True, env=drv.ENV)
    ctx["c13h"] = hdir
    ctx["c13"] = {}
    for l in open(lst):
        l = l.strip()
        if l:
            pkg, entry = l.split(":")
            ctx["c13"].setdefault(pkg, []).append(entry)
    return ctx

def _c13_runs(ctx):
    runs = [Run("context_helpers", ["./internal/zzverif/hveneers"], VENEERS_HARNESS, ["VerifC13ContextHelpers"], "internal/zzverif/hveneers", test_pkg_name="hveneers",
                needs_leaf=True, judge="prefix:C13")]
    for pkg, entries in sorted(ctx["c13"].items()):
        runs.append(_gen_run(ctx, "equals_" + pkg, pkg, [(pkg + "/zz_verif_c13_gen.go", os.path.join(ctx["c13h"], "zz_verif_c13_%s.go" % pkg))], entries, panics="violation"))
    return runs

PROPERTIES["C13"] = {
    "level_text": "Two-stage, bounded symbolic execution + SMT. Stage 1: the REAL generator (cog built from /repo's current tree) emits Go types with Equals for the corpus. Stage 2: for "
                  "EVERY generated type that has an Equals method (list read from go/types on this run) arbitrary values a, b, c are built from the declared fields (leaves solver "
                  "variables; shapes: all three fully populated, or two values with at most one optional/collection position populated each, or sparse vs full) and the solver decides "
                  "reflexivity, symmetry, transitivity and a.Equals(b) <=> structural equality with nil and empty collections identified (the equality of the JSON encodings).",
    "level_note": "Schema dimension: finite corpus (testdata/schemas/equality: nested arrays/maps of references, optional scalars, enums, any fields, anonymous structs; validation; "
                  "defaults; corpus/c08). Value dimension: solver. Bounds: 2/3 indirections, collections of 1 entry (2 in sparse positions), strings over {'',a,b}, ints [0,3], any over "
                  "{string,float64,bool,[]any,map[string]any}. JSON equality is replaced by structural equality (fields are distinctly tagged, encoding/json is injective on these types up to nil-vs-empty).",
    "bounds": {"corpus": "testdata/schemas/{equality,validation,defaults} + corpus/c08/constraints.json", "values": "depth 2 (quick) / 3 (thorough), three shape families"},
    "prepare": _c13_prepare,
    "runs": _c13_runs,
}


def _c09_runs(ctx):
    return [_gen_run(ctx, "widgets", "widgets", [("widgets/zz_verif_c09.go", "harness/gen/widgets/zz_verif_c09.go")], ["VerifC09Option", "VerifC09TwoOptions"]),
            Run("nilchecks", ["./internal/zzverif/hveneers"], VENEERS_HARNESS, ["VerifC09NilChecks", "VerifC09NilChecksAcrossBuilders"], "internal/zzverif/hveneers", test_pkg_name="hveneers", needs_leaf=True)]

PROPERTIES["C09"] = {
    "level_text": "Two-stage, bounded symbolic execution + SMT. Stage 1: the REAL generator emits Go types and builders for the corpus. Stage 2: every option of the generated builder is "
                  "applied, with symbolic arguments (nested builders are stubs returning an arbitrary value or an arbitrary failure), to a fresh builder and the solver decides: the target "
                  "holds the given value; every other field equals the freshly constructed default object's (frame); constructor constants are present; Build() fails iff a constraint is "
                  "violated or a nested builder failed and otherwise returns the assembled object; two options on distinct targets each keep the other's write.",
    "level_note": "Schema dimension: finite corpus (corpus/c09/widgets.json: constants, scalar/number/bool/array defaults, constraints, map, required and optional nested builders, enum). "
                  "Go only: generated Python builders are outside the claim (no solver-based engine for Python in the image). Collections <= 1 entry.",
    "bounds": {"corpus": ["corpus/c09/widgets.json (Widget, Options)"], "options": "all 8 options of WidgetBuilder, one and two at a time", "arguments": "full-range ints, IEEE double, abstract strings, nil/empty/1-entry collections"},
    "prepare": _gen_prepare,
    "runs": _c09_runs,
}


PROPERTIES["C12"] = {
    "level_text": "Bounded symbolic execution + SMT of jennies/jsonschema.Schema.GenerateSchema (objectToDefinition, formatType/Scalar/Struct/Ref/Enum/Array/Map/Disjunction, constraint "
                  "helpers, reference formatter) on a symbolic context (2 packages, cross-package references, same-named objects in both). The assembled document is inspected: every "
                  "$ref resolves inside the document; every object is a definition under its own name and describes that object; every field a property under its own name; `required`, "
                  "constraints, constants, enum values and defaults are carried over with the values (and dynamic types) the IR holds.",
    "level_note": "Bounds: main object T(1) over {scalar string/int64/any with default/constraint, constant, ref, enum, array, map, struct<=2, union of 2}, 3 objects. Outside the claim: acceptance "
                  "by independent loaders and by cog's own parsers (library schema compilers are not encodable), json.MarshalIndent of the ordered maps, the OpenAPI jenny, and validation of "
                  "encoded Go values against the emitted schema (part iv of the design; not built).",
    "bounds": {"context": "2 packages, 3 objects, main object T(1)", "leaves": "Required, defaults (string/int64), constraints (>=, <, minLength), scalar kind, names symbolic"},
    "runs": [Run("jsonschema_jenny", ["./internal/jennies/jsonschema"], _h(("internal/jennies/jsonschema/zz_verif_c12.go", "harness/jjsonschema/zz_verif_c12.go")),
                 ["VerifC12GenerateSchema"], "internal/jennies/jsonschema", test_pkg_name="jsonschema", needs_leaf=True,
                 allow_unreached=["C12: a property is not a schema object", "C12: an array has no items schema", "C12: a map has no additionalProperties schema"])],
}


PROPERTIES["C10"] = {
    "level_text": "Bounded symbolic execution + SMT of the JSON Schema walker (declareDefinition/walkDefinition/walkObject/walkString/Number/Bool/List/Enum/UntypedConstant, "
                  "unwrapJSONNumber) driven with bounded symbolic instances of the library's compiled-schema struct (numbers as json.Number, as santhosh-tekuri/jsonschema delivers them), "
                  "followed by the real Go and Python pass chains: every default and constant declared by the schema must be present in the IR with the same value and a canonical dynamic "
                  "type (bool/int64/float64/string/[]any/map[string]any) at the parser's output and at the end of both chains.",
    "level_note": "In part: what a generated constructor prints is text rendered by templates (not encodable); the claim is the IR-level mechanism the property names (defaults travel as "
                  "untyped Go values). Bounds: object of 1 (quick) / up to 3 (thorough) properties over 7 kinds (string/integer/number/boolean/array/enum defaults, typed and untyped constants). "
                  "CUE and OpenAPI front ends, and Go-vs-Python agreement of the emitted code, are outside the claim.",
    "bounds": {"schema": "object with 1 / 1-3 properties x 7 kinds, defaults present or absent, Required symbolic"},
    "runs": [Run("jsonschema_parser", ["./internal/jsonschema"], _h(("internal/jsonschema/zz_verif_c10.go", "harness/pjsonschema/zz_verif_c10.go")),
                 ["VerifC10JSONSchemaDefaults"], "internal/jsonschema", needs_leaf=True)],
}


PROPERTIES["C14"] = {
    "level_text": "Bounded symbolic execution + SMT of languages.ConverterGenerator.FromBuilder (convertOption, mappingForOption, guardForAssignments, argumentForType, constructorArgs, "
                  "assignmentKey) on builders derived by the REAL FromAST, optionally after one option rule (array_to_append, map_to_index, unfold_boolean, struct_fields_as_arguments/options, "
                  "duplicate): the options the converter maps are exactly, and in order, the options needed to reproduce a value (each assignment target covered once); each mapped option has "
                  "exactly one argument mapping per assignment to reproduce, each naming exactly one mapping kind; constructor arguments are mapped exactly once.",
    "level_note": "In part (IR level): `the text returned by the generated converter is a valid Go expression that rebuilds v` is template-rendered text judged by the Go compiler and is outside "
                  "the claim. Bounds as C17 (Foo with 2 fields over 7 kinds).",
    "bounds": {"builders": "as C17", "rules before conversion": "none or one of 6 option rules applied to every option"},
    "runs": [Run("veneers", ["./internal/zzverif/hveneers"], VENEERS_HARNESS, ["VerifC14ConverterMapping", "VerifC14UnionLists", "VerifC14BuilderChoice", "VerifC14BuilderChoicePartial"], "internal/zzverif/hveneers", test_pkg_name="hveneers", needs_leaf=True, repeat=200, judge="prefix:C14")],
}


# ---------------------------------------------------------------- parser walkers (symbolic library structs)

OPENAPI_HARNESS = _h(("internal/openapi/zz_verif_parser.go", "harness/popenapi/zz_verif_parser.go"))

def _add_run(pid, run):
    old = PROPERTIES[pid]["runs"]
    if callable(old):
        PROPERTIES[pid]["runs"] = (lambda o: (lambda ctx: list(o(ctx)) + [run]))(old)
    else:
        PROPERTIES[pid]["runs"] = list(old) + [run]

_add_run("C10", Run("chains", ["./internal/zzverif/hchains"], CHAINS_HARNESS, ["VerifC10ChainUnionDefault"], "internal/zzverif/hchains", test_pkg_name="hchains",
                    needs_leaf=True, judge="prefix:C10"))
_add_run("C10", Run("openapi_enums", ["./internal/openapi"], OPENAPI_HARNESS, ["VerifParserOpenAPI"], "internal/openapi", needs_leaf=True, judge="prefix:C10"))
_add_run("C10", Run("constant_union", ["./internal/ast/compiler"], COMPILER_HARNESS, ["VerifC10ConstantUnionDefault"], "internal/ast/compiler", needs_leaf=True, judge="prefix:C10"))
_add_run("C08", Run("openapi_constraints", ["./internal/openapi"], OPENAPI_HARNESS, ["VerifC08OpenAPIConstraints"], "internal/openapi", needs_leaf=True, judge="prefix:C08"))
_add_run("C17", Run("yaml_rules", ["./internal/yaml"], {"internal/yaml/zz_verif_c04_yaml.go": "harness/pyaml/zz_verif_c04_yaml.go"}, ["VerifC17YAMLMergeDestination"], "internal/yaml",
                    needs_leaf=True, judge="prefix:C17"))
_add_run("C07", Run("variant_packages", ["./internal/zzverif/hveneers"], VENEERS_HARNESS, ["VerifC07SchemasForVariant"], "internal/zzverif/hveneers", test_pkg_name="hveneers",
                    needs_leaf=True, judge="prefix:C07"))
_add_run("C07", Run("output_languages", ["./internal/codegen"], {"internal/codegen/zz_verif_c16_context.go": "harness/pcodegen/zz_verif_c16_context.go"},
                    ["VerifC07OutputLanguages"], "internal/codegen", needs_leaf=True, judge="prefix:C07"))
_add_run("C16", Run("language_context", ["./internal/codegen"], {"internal/codegen/zz_verif_c16_context.go": "harness/pcodegen/zz_verif_c16_context.go"},
                    ["VerifC16Context"], "internal/codegen", needs_leaf=True, judge="prefix:C16"))
_add_run("C04", Run("yaml_pipeline", ["./internal/codegen"], {"internal/codegen/zz_verif_c20_strict.go": "harness/pcodegen/zz_verif_c20_strict.go",
                                                                   "internal/codegen/zz_verif_c20_docs_pipeline.go": "harness/pcodegen/zz_stub_docs.go"},
                    ["VerifC04YAMLPipeline"], "internal/codegen", needs_leaf=True, panics="violation", judge="panic", flags=["-hangs"]))
_add_run("C04", Run("yaml_types", ["./internal/yaml"], {"internal/yaml/zz_verif_c04_yaml.go": "harness/pyaml/zz_verif_c04_yaml.go"}, ["VerifC04YAMLTypes", "VerifC04YAMLVeneers"], "internal/yaml",
                    needs_leaf=True, panics="violation", judge="panic", flags=["-hangs"]))
_add_run("C03", Run("pipeline_parameters", ["./internal/codegen"], {"internal/codegen/zz_verif_c20_strict.go": "harness/pcodegen/zz_verif_c20_strict.go",
                                                                         "internal/codegen/zz_verif_c20_docs_pipeline.go": "harness/pcodegen/zz_stub_docs.go"},
                    ["VerifC03Interpolate"], "internal/codegen", needs_leaf=True, repeat=400, judge="prefix:C03"))
_add_run("C03", Run("orderedmap", ["./internal/orderedmap"], {"internal/orderedmap/zz_verif_c19.go": "harness/orderedmap/zz_verif_c19.go"}, ["VerifC03FromMap"], "internal/orderedmap",
                    repeat=400, judge="prefix:C03"))
_add_run("C03", Run("user_passes", ["./internal/ast/compiler"], COMPILER_HARNESS, ["VerifC03UserPasses"], "internal/ast/compiler", needs_leaf=True, repeat=400, judge="prefix:C03"))
_add_run("C03", Run("converter", ["./internal/zzverif/hveneers"], VENEERS_HARNESS, ["VerifC14UnionLists", "VerifC03Compose", "VerifC03LanguageRefs"], "internal/zzverif/hveneers", test_pkg_name="hveneers",
                    needs_leaf=True, repeat=400, judge="prefix:C03"))
_add_run("C03", Run("openapi_parser", ["./internal/openapi"], OPENAPI_HARNESS, ["VerifParserOpenAPI"], "internal/openapi", needs_leaf=True, repeat=400,
                    allow_unreached=["C05: a reference of the IR parsed from an OpenAPI document does not resolve", "C05: the parser lost or invented a definition"]))

JSONSCHEMA_PARSER_HARNESS = _h(("internal/jsonschema/zz_verif_c10.go", "harness/pjsonschema/zz_verif_c10.go"),
                               ("internal/jsonschema/zz_verif_parser.go", "harness/pjsonschema/zz_verif_parser.go"))
_C05_MSGS = ["C05: a reference of the IR parsed from an OpenAPI document does not resolve", "C05: the parser lost or invented a definition",
             "C05: a reference of the IR parsed from a JSON Schema does not resolve"]
_C03_MSGS = ["C03: the OpenAPI parser fails for one map iteration order and succeeds for another", "C03: the IR parsed from an OpenAPI document depends on map iteration order",
             "C03: the JSON Schema parser fails for one map iteration order and succeeds for another", "C03: the IR parsed from a JSON Schema depends on map iteration order"]
_C10_MSGS = [m for m in []]

def _parser_runs(**kw):
    return [Run("openapi_parser", ["./internal/openapi"], OPENAPI_HARNESS, ["VerifParserOpenAPI"], "internal/openapi", needs_leaf=True, repeat=400, **kw),
            Run("jsonschema_walker", ["./internal/jsonschema"], JSONSCHEMA_PARSER_HARNESS, ["VerifParserJSONSchema"], "internal/jsonschema", needs_leaf=True, repeat=400, **kw)]

# C03 got the OpenAPI run above; add the JSON Schema walker, and give C05 / C04 both
PROPERTIES["C03"]["runs"] = [r for r in PROPERTIES["C03"]["runs"] if r.name != "openapi_parser"] + _parser_runs(judge="prefix:C03")
_add_run("C05", _parser_runs(judge="prefix:C05")[0])
_add_run("C05", _parser_runs(judge="prefix:C05")[1])
_add_run("C04", _parser_runs(panics="violation", judge="panic")[0])
_add_run("C04", _parser_runs(panics="violation", judge="panic")[1])
# the C10 run loads the same package: it must carry the parser harness file too (one package, one set of files)
