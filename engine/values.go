package main

import (
	"fmt"
	"go/types"
	"sort"
	"strings"

	"golang.org/x/tools/go/ssa"
)

// Value domain:
//
//	bool, int64 (every integer kind, kept normalised to the width/signedness of
//	its static type), float64 (float32 values are kept rounded), string   concrete scalars
//	*Term      symbolic Bool / BitVec / F64 / F32 / Str
//	*UStr      guarded union of concrete strings (mutually exclusive guards)
//	*Agg       struct / array / tuple (value semantics: copied on load/store)
//	Pointer, Slice, *MapV, Iface, *Closure, *ErrV   reference-like values
type Value interface{}

type Agg struct{ F []Value }

type Obj struct {
	ID     int
	Val    Value
	Frozen bool
	Tag    string
	// Poison: a package-level variable whose initial value the engine does not know
	// (its package initialiser was not, or not completely, executed). Reading it
	// before it is written aborts the path.
	Poison  bool
	Written bool
}

type Pointer struct {
	O    *Obj
	Path []int
}

type Slice struct {
	O             *Obj // backing array object (Val is *Agg); nil => nil slice
	Off, Len, Cap int
}

type MapEntry struct {
	K, V Value
}
type MapV struct {
	ID      int
	Entries []*MapEntry
	Frozen  bool
	Tag     string
}

type Iface struct {
	T types.Type // nil => nil interface
	V Value
}

type Closure struct {
	Fn  *ssa.Function
	Env []Value
	// Native is set for engine-provided function values (e.g. ErrV.Error bound method).
	Native func(e *Engine, args []Value) Value
}

// ErrV is an error created by errors.New / fmt.Errorf / errors.Join inside the engine.
type ErrV struct {
	ID      int
	Msg     Value
	Wrapped []Value // Iface values
	Joined  bool
}

type UAlt struct {
	G *Term
	S string
}
type UStr struct{ Alts []UAlt }

type MapIter struct {
	M    *MapV
	Keys []*MapEntry
	I    int
}
type StrIter struct {
	S string
	I int
}

func copyVal(v Value) Value {
	if a, ok := v.(*Agg); ok {
		n := &Agg{F: make([]Value, len(a.F))}
		for i, f := range a.F {
			n.F[i] = copyVal(f)
		}
		return n
	}
	return v
}

// ---- strings as guarded unions

func asUStr(v Value) *UStr {
	switch s := v.(type) {
	case string:
		return &UStr{[]UAlt{{tTrue, s}}}
	case *UStr:
		return s
	}
	panic(abort{fmt.Sprintf("not a concrete/union string value: %T", v)})
}

const maxUnionWidth = 96

func normUStr(u *UStr) Value {
	m := map[string]*Term{}
	var order []string
	for _, a := range u.Alts {
		if a.G == tFalse {
			continue
		}
		if g, ok := m[a.S]; ok {
			if len(g.S)+len(a.G.S) > 1<<20 {
				// guards of a string union that keeps being rewritten inside a loop: count it
				// against the unwinding bound before it exhausts memory
				panic(outOfBound{"step budget exceeded (the guards of a symbolic string grew beyond 1 MiB)"})
			}
			m[a.S] = tOr(g, a.G)
		} else {
			m[a.S] = a.G
			order = append(order, a.S)
		}
	}
	if len(order) == 1 {
		return order[0]
	}
	if len(order) == 0 {
		// every alternative is infeasible; any value will do on an infeasible path
		return ""
	}
	sort.Strings(order)
	out := &UStr{}
	for _, s := range order {
		out.Alts = append(out.Alts, UAlt{m[s], s})
	}
	if len(out.Alts) > maxUnionWidth {
		panic(abort{"string union too wide"})
	}
	return out
}

func liftStr1(v Value, f func(string) string) Value {
	if s, ok := v.(string); ok {
		return f(s)
	}
	u := asUStr(v)
	out := &UStr{}
	for _, a := range u.Alts {
		out.Alts = append(out.Alts, UAlt{a.G, f(a.S)})
	}
	return normUStr(out)
}

func liftStr2(x, y Value, f func(a, b string) string) Value {
	if a, ok := x.(string); ok {
		if b, ok := y.(string); ok {
			return f(a, b)
		}
	}
	ux, uy := asUStr(x), asUStr(y)
	out := &UStr{}
	for _, a := range ux.Alts {
		for _, b := range uy.Alts {
			out.Alts = append(out.Alts, UAlt{tAnd(a.G, b.G), f(a.S, b.S)})
		}
	}
	return normUStr(out)
}

func predStr1(x Value, f func(a string) bool) Value {
	if a, ok := x.(string); ok {
		return f(a)
	}
	r := tFalse
	for _, a := range asUStr(x).Alts {
		if f(a.S) {
			r = tOr(r, a.G)
		}
	}
	return boolVal(r)
}

func predStr2(x, y Value, f func(a, b string) bool) Value {
	if a, ok := x.(string); ok {
		if b, ok := y.(string); ok {
			return f(a, b)
		}
	}
	ux, uy := asUStr(x), asUStr(y)
	r := tFalse
	for _, a := range ux.Alts {
		for _, b := range uy.Alts {
			if f(a.S, b.S) {
				r = tOr(r, tAnd(a.G, b.G))
			}
		}
	}
	return boolVal(r)
}

func boolVal(t *Term) Value {
	if t == tTrue {
		return true
	}
	if t == tFalse {
		return false
	}
	return t
}

func isTerm(v Value) bool { _, ok := v.(*Term); return ok }

func isStrTerm(v Value) bool {
	t, ok := v.(*Term)
	return ok && t.Sort == "Str"
}

func asBoolTerm(v Value) *Term {
	switch b := v.(type) {
	case bool:
		return tBool(b)
	case *Term:
		if b.Sort == "Bool" {
			return b
		}
	}
	panic(abort{fmt.Sprintf("asBoolTerm: %T", v)})
}

// intTerm turns an integer value into a BV term of the given width.
func intTerm(v Value, bits int) *Term {
	switch n := v.(type) {
	case int64:
		return tBV(n, bits)
	case *Term:
		return n
	}
	panic(abort{fmt.Sprintf("intTerm: %T", v)})
}

func floatTerm(v Value, bits int) *Term {
	switch f := v.(type) {
	case float64:
		if bits == 32 {
			return tF32(float32(f))
		}
		return tF64(f)
	case *Term:
		return f
	}
	panic(abort{fmt.Sprintf("floatTerm: %T", v)})
}

func zero(t types.Type) Value {
	switch t := t.(type) {
	case *types.Basic:
		switch {
		case t.Info()&types.IsBoolean != 0:
			return false
		case t.Info()&types.IsInteger != 0:
			return int64(0)
		case t.Info()&types.IsFloat != 0:
			return float64(0)
		case t.Info()&types.IsString != 0:
			return ""
		case t.Kind() == types.UnsafePointer:
			return Pointer{}
		case t.Kind() == types.UntypedNil:
			return nil
		}
	case *types.Pointer:
		return Pointer{}
	case *types.Slice:
		return Slice{}
	case *types.Map:
		return (*MapV)(nil)
	case *types.Signature:
		return (*Closure)(nil)
	case *types.Interface:
		return Iface{}
	case *types.Chan:
		return nil
	case *types.Struct:
		a := &Agg{F: make([]Value, t.NumFields())}
		for i := range a.F {
			a.F[i] = zero(t.Field(i).Type())
		}
		return a
	case *types.Array:
		a := &Agg{F: make([]Value, t.Len())}
		for i := range a.F {
			a.F[i] = zero(t.Elem())
		}
		return a
	case *types.Tuple:
		a := &Agg{F: make([]Value, t.Len())}
		for i := range a.F {
			a.F[i] = zero(t.At(i).Type())
		}
		return a
	case *types.Named, *types.Alias:
		return zero(t.Underlying())
	case *types.TypeParam:
		panic(abort{"zero of type parameter " + t.String()})
	}
	panic(abort{fmt.Sprintf("zero: unsupported type %s (%T)", t, t)})
}

// dump renders a value canonically (used by Observe, result grouping and debugging).
func dump(v Value, depth int) string {
	if depth > 14 {
		return "…"
	}
	switch x := v.(type) {
	case nil:
		return "nil"
	case bool, int64, float64:
		return fmt.Sprint(x)
	case string:
		return fmt.Sprintf("%q", x)
	case *Term:
		return "⟨" + x.S + "⟩"
	case *UStr:
		var parts []string
		for _, a := range x.Alts {
			parts = append(parts, fmt.Sprintf("%q", a.S))
		}
		return "⟨" + strings.Join(parts, "|") + "⟩"
	case *Agg:
		var parts []string
		for _, f := range x.F {
			parts = append(parts, dump(f, depth+1))
		}
		return "{" + strings.Join(parts, " ") + "}"
	case Pointer:
		if x.O == nil {
			return "nil"
		}
		return "&" + dump(navigate(x.O.Val, x.Path), depth+1)
	case Slice:
		if x.O == nil {
			return "[]nil"
		}
		var parts []string
		arr := x.O.Val.(*Agg)
		for i := 0; i < x.Len; i++ {
			parts = append(parts, dump(arr.F[x.Off+i], depth+1))
		}
		return "[" + strings.Join(parts, " ") + "]"
	case *MapV:
		if x == nil {
			return "map[]nil"
		}
		var parts []string
		for _, e := range x.Entries {
			parts = append(parts, dump(e.K, depth+1)+":"+dump(e.V, depth+1))
		}
		return "map[" + strings.Join(parts, " ") + "]"
	case Iface:
		if x.T == nil {
			return "nil"
		}
		return "(" + x.T.String() + ")" + dump(x.V, depth+1)
	case *Closure:
		if x == nil {
			return "nilfunc"
		}
		if x.Fn == nil {
			return "func:native"
		}
		return "func:" + x.Fn.Name()
	case *ErrV:
		return "err(" + dump(x.Msg, depth+1) + ")"
	}
	return fmt.Sprintf("?%T", v)
}

func navigate(root Value, path []int) Value {
	cur := root
	for _, i := range path {
		cur = cur.(*Agg).F[i]
	}
	return cur
}

func loadPtr(p Pointer) Value {
	if p.O == nil {
		panic(goPanic{msg: "nil pointer dereference"})
	}
	if p.O.Poison {
		panic(abort{"read of package-level variable with unknown initial value: " + p.O.Tag})
	}
	return copyVal(navigate(p.O.Val, p.Path))
}

func storePtr(p Pointer, v Value) {
	if p.O == nil {
		panic(goPanic{msg: "nil pointer dereference"})
	}
	if p.O.Frozen {
		panic(frozenWrite{"store into frozen object (" + p.O.Tag + ")"})
	}
	v = copyVal(v)
	if len(p.Path) == 0 {
		p.O.Val = v
		p.O.Written = true
		p.O.Poison = false
		return
	}
	parent := navigate(p.O.Val, p.Path[:len(p.Path)-1]).(*Agg)
	parent.F[p.Path[len(p.Path)-1]] = v
}

func samePath(a, b []int) bool {
	if len(a) != len(b) {
		return false
	}
	for i := range a {
		if a[i] != b[i] {
			return false
		}
	}
	return true
}

// integer helpers -----------------------------------------------------------

type intInfo struct {
	bits     int
	unsigned bool
}

func intInfoOf(t types.Type) (intInfo, bool) {
	b, ok := t.Underlying().(*types.Basic)
	if !ok || b.Info()&types.IsInteger == 0 {
		return intInfo{}, false
	}
	u := b.Info()&types.IsUnsigned != 0
	switch b.Kind() {
	case types.Int8, types.Uint8:
		return intInfo{8, u}, true
	case types.Int16, types.Uint16:
		return intInfo{16, u}, true
	case types.Int32, types.Uint32:
		return intInfo{32, u}, true
	default:
		return intInfo{64, u}, true
	}
}

// normInt wraps v to the width and signedness of ii (the int64 holds the
// sign- or zero-extended value; uint64 values are held as their bit pattern).
func normInt(v int64, ii intInfo) int64 {
	switch ii.bits {
	case 8:
		if ii.unsigned {
			return int64(uint8(v))
		}
		return int64(int8(v))
	case 16:
		if ii.unsigned {
			return int64(uint16(v))
		}
		return int64(int16(v))
	case 32:
		if ii.unsigned {
			return int64(uint32(v))
		}
		return int64(int32(v))
	}
	return v
}

func floatBits(t types.Type) int {
	b, ok := t.Underlying().(*types.Basic)
	if !ok || b.Info()&types.IsFloat == 0 {
		return 0
	}
	if b.Kind() == types.Float32 {
		return 32
	}
	return 64
}

func isStringType(t types.Type) bool {
	b, ok := t.Underlying().(*types.Basic)
	return ok && b.Info()&types.IsString != 0
}
