package main

import (
	"fmt"
	"go/types"
	"strings"
)

// symValue builds an arbitrary value of a Go type from go/types (DESIGN §4.3):
// every leaf is a solver variable; pointers, slices, maps and interfaces are
// populated down to `depth` indirections. mode 0 ("full") makes every pointer
// non-nil, every slice of length 2 and every map of one entry — one path whose
// leaves are all symbolic; mode 1 ("forked") additionally forks nil-ness and
// lengths at the outermost level. The native runtime (zzverif.SymValue) mirrors
// this traversal draw for draw.
type symGen struct {
	e     *Engine
	name  string
	mode  int
	anyRR int
	// mode 1 ("sparse"): exactly one of the top-level pointer/slice/map/interface
	// positions is populated (or none); pick says which, pos counts positions.
	pick, pos int
	// json: values as obtained by decoding JSON (`any` holds float64, never int64)
	json bool
	// fixedKeys: string map keys are the concrete "k" (no key-equality forks)
	fixedKeys bool
	// impls: an interface with methods is populated with a value of the first type of
	// the interface's own package that implements it (implFor)
	impls bool
}

// implFor returns the first (by name) non-interface named type declared in the package
// of the named interface type t that implements it, or nil.
func implFor(t types.Type) types.Type {
	n, ok := t.(*types.Named)
	if !ok || n.Obj().Pkg() == nil {
		return nil
	}
	it, ok := n.Underlying().(*types.Interface)
	if !ok || it.NumMethods() == 0 {
		return nil
	}
	scope := n.Obj().Pkg().Scope()
	for _, name := range scope.Names() { // sorted
		tn, ok := scope.Lookup(name).(*types.TypeName)
		if !ok || !tn.Exported() || tn.IsAlias() {
			continue
		}
		c, ok := tn.Type().(*types.Named)
		if !ok || c.TypeParams().Len() > 0 {
			continue
		}
		if _, isIface := c.Underlying().(*types.Interface); isIface {
			continue
		}
		if types.Implements(c, it) {
			return c
		}
	}
	return nil
}

func (e *Engine) symValue(t types.Type, name string, depth, mode int) Value {
	g := &symGen{e: e, name: name, mode: mode & 1, json: mode&2 != 0, fixedKeys: mode&4 != 0, impls: mode&8 != 0}
	if mode&1 == 1 {
		n := countTop(t, g.impls)
		g.pick = g.choose(n + 1)
	}
	if mode&16 != 0 {
		// the dynamic type the first `any` position gets is forked (else the rotation always starts with a string)
		g.anyRR = g.choose(5)
	}
	return g.gen(t, depth, true)
}

// countTop counts the forkable positions of the outermost struct level.
func countTop(t types.Type, impls bool) int {
	switch u := t.Underlying().(type) {
	case *types.Pointer, *types.Slice, *types.Map:
		return 1
	case *types.Interface:
		if u.NumMethods() > 0 {
			if impls && implFor(t) != nil {
				return 1
			}
			return 0
		}
		return 1
	case *types.Struct:
		n := 0
		for i := 0; i < u.NumFields(); i++ {
			n += countTop(u.Field(i).Type(), impls)
		}
		return n
	case *types.Array:
		return int(u.Len()) * countTop(u.Elem(), impls)
	}
	return 0
}

// populated decides whether a top-level position is populated in sparse mode.
func (g *symGen) populated() bool {
	p := g.pos
	g.pos++
	return p == g.pick
}

func (g *symGen) drawBool() Value {
	t := g.e.freshVar("b_"+g.name, "Bool")
	g.e.draws = append(g.e.draws, &Draw{Kind: "bool", Name: g.name, Var: t.S})
	return t
}

func (g *symGen) drawInt(bits int, unsigned bool) Value {
	t := g.e.freshVar("n_"+g.name, bvSort(bits))
	// small non-negative range keeps replayed values readable; equality is what matters
	g.e.solver.Assert(tBin("bvule", t, tBV(3, bits), "Bool"))
	d := &Draw{Kind: "int", Name: g.name, Var: t.S, Bits: bits}
	if unsigned {
		d.Kind = "uint"
	}
	g.e.draws = append(g.e.draws, d)
	return t
}

func (g *symGen) drawStr() Value {
	alts := []string{"", "a", "b"}
	idx := g.e.freshVar("s_"+g.name, "Int")
	g.e.solver.Assert(tAnd(tBin("<=", tInt(0), idx, "Bool"), tBin("<", idx, tInt(int64(len(alts))), "Bool")))
	u := &UStr{}
	for i, a := range alts {
		u.Alts = append(u.Alts, UAlt{tEq(idx, tInt(int64(i))), a})
	}
	g.e.draws = append(g.e.draws, &Draw{Kind: "str", Name: g.name, Var: idx.S, Alts: alts})
	return normUStr(u)
}

func (g *symGen) choose(n int) int {
	c := g.e.chooseN(n)
	g.e.draws = append(g.e.draws, &Draw{Kind: "choose", Name: fmt.Sprint(n), Val: c})
	return c
}

func (g *symGen) gen(t types.Type, depth int, top bool) Value {
	fork := g.mode == 1 && top
	switch u := t.Underlying().(type) {
	case *types.Basic:
		switch {
		case u.Info()&types.IsBoolean != 0:
			return g.drawBool()
		case u.Info()&types.IsInteger != 0:
			ii, _ := intInfoOf(u)
			return g.drawInt(ii.bits, ii.unsigned)
		case u.Info()&types.IsFloat != 0:
			// a float leaf: small integral values (equality and copying are what matter)
			n := g.drawInt(64, false)
			return g.e.convert(n, types.Typ[types.Int64], t)
		case u.Info()&types.IsString != 0:
			return g.drawStr()
		}
		return zero(t)
	case *types.Pointer:
		if depth <= 0 {
			return Pointer{}
		}
		if fork && !g.populated() {
			return Pointer{}
		}
		o := g.e.newObj(g.gen(u.Elem(), depth-1, false), "sym:"+g.name)
		return Pointer{O: o}
	case *types.Slice:
		if depth <= 0 {
			return Slice{}
		}
		n := 1
		if fork {
			if !g.populated() {
				return Slice{}
			}
			n = 2
		}
		elems := make([]Value, n)
		for i := range elems {
			elems[i] = g.gen(u.Elem(), depth-1, false)
		}
		return Slice{O: g.e.newObj(&Agg{F: elems}, "sym:"+g.name+"[]"), Len: n, Cap: n}
	case *types.Map:
		if depth <= 0 {
			return (*MapV)(nil)
		}
		if fork && !g.populated() {
			return (*MapV)(nil)
		}
		g.e.nextID++
		m := &MapV{ID: g.e.nextID, Tag: "sym:" + g.name + "{}"}
		var k Value = "k"
		if !g.fixedKeys || !isStringType(u.Key()) {
			k = g.gen(u.Key(), depth-1, false)
		}
		m.Entries = append(m.Entries, &MapEntry{K: k, V: g.gen(u.Elem(), depth-1, false)})
		return m
	case *types.Struct:
		if isOrderedMap(t) && u.NumFields() == 2 {
			// representation invariant of orderedmap.Map: order lists exactly the keys of records
			rec := u.Field(0).Type().Underlying().(*types.Map)
			if depth <= 0 {
				return &Agg{F: []Value{(*MapV)(nil), Slice{}}}
			}
			g.e.nextID++
			m := &MapV{ID: g.e.nextID, Tag: "sym:" + g.name + "{records}"}
			k := g.gen(rec.Key(), depth-1, false)
			m.Entries = append(m.Entries, &MapEntry{K: k, V: g.gen(rec.Elem(), depth-1, false)})
			order := Slice{O: g.e.newObj(&Agg{F: []Value{k}}, "sym:"+g.name+"[order]"), Len: 1, Cap: 1}
			return &Agg{F: []Value{m, order}}
		}
		a := &Agg{F: make([]Value, u.NumFields())}
		for i := range a.F {
			a.F[i] = g.gen(u.Field(i).Type(), depth, top)
		}
		return a
	case *types.Array:
		a := &Agg{F: make([]Value, u.Len())}
		for i := range a.F {
			a.F[i] = g.gen(u.Elem(), depth, false)
		}
		return a
	case *types.Interface:
		if u.NumMethods() > 0 {
			var impl types.Type
			if g.impls {
				impl = implFor(t)
			}
			if impl == nil || depth <= 0 {
				return Iface{}
			}
			if fork && !g.populated() {
				return Iface{}
			}
			return Iface{T: impl, V: g.gen(impl, depth, false)}
		}
		// `any`: rotate over the dynamic types a parser can deliver
		k := g.anyRR % 5
		if fork {
			if !g.populated() {
				return Iface{}
			}
			k = g.choose(5)
		}
		g.anyRR++
		if depth <= 0 && k >= 3 {
			k = 0
		}
		switch k {
		case 0:
			return Iface{T: types.Typ[types.String], V: g.drawStr()}
		case 1:
			if g.json {
				return Iface{T: types.Typ[types.Float64], V: g.e.convert(g.drawInt(64, false), types.Typ[types.Int64], types.Typ[types.Float64])}
			}
			return Iface{T: types.Typ[types.Int64], V: g.drawInt(64, false)}
		case 2:
			return Iface{T: types.Typ[types.Bool], V: g.drawBool()}
		case 3:
			st := types.NewSlice(t)
			el := Iface{T: types.Typ[types.String], V: g.drawStr()}
			return Iface{T: st, V: Slice{O: g.e.newObj(&Agg{F: []Value{el}}, "sym:"+g.name+":[]any"), Len: 1, Cap: 1}}
		default:
			mt := types.NewMap(types.Typ[types.String], t)
			g.e.nextID++
			m := &MapV{ID: g.e.nextID, Tag: "sym:" + g.name + ":map[string]any"}
			m.Entries = append(m.Entries, &MapEntry{K: "k", V: Iface{T: types.Typ[types.String], V: g.drawStr()}})
			return Iface{T: mt, V: m}
		}
	case *types.Signature:
		return (*Closure)(nil)
	case *types.Chan:
		return nil
	}
	panic(abort{"symValue: unsupported type " + t.String()})
}

// cloneValue deep-copies a value (heap objects included, aliasing preserved).
func (e *Engine) cloneValue(v Value, objs map[*Obj]*Obj, maps map[*MapV]*MapV) Value {
	switch x := v.(type) {
	case *Agg:
		n := &Agg{F: make([]Value, len(x.F))}
		for i, f := range x.F {
			n.F[i] = e.cloneValue(f, objs, maps)
		}
		return n
	case Pointer:
		if x.O == nil {
			return x
		}
		return Pointer{O: e.cloneObj(x.O, objs, maps), Path: x.Path}
	case Slice:
		if x.O == nil {
			return x
		}
		return Slice{O: e.cloneObj(x.O, objs, maps), Off: x.Off, Len: x.Len, Cap: x.Cap}
	case *MapV:
		if x == nil {
			return x
		}
		if n, ok := maps[x]; ok {
			return n
		}
		e.nextID++
		n := &MapV{ID: e.nextID, Tag: x.Tag + "(clone)"}
		maps[x] = n
		for _, en := range x.Entries {
			n.Entries = append(n.Entries, &MapEntry{K: e.cloneValue(en.K, objs, maps), V: e.cloneValue(en.V, objs, maps)})
		}
		return n
	case Iface:
		return Iface{T: x.T, V: e.cloneValue(x.V, objs, maps)}
	}
	return v
}

func (e *Engine) cloneObj(o *Obj, objs map[*Obj]*Obj, maps map[*MapV]*MapV) *Obj {
	if n, ok := objs[o]; ok {
		return n
	}
	n := e.newObj(nil, o.Tag+"(clone)")
	objs[o] = n
	n.Val = e.cloneValue(o.Val, objs, maps)
	return n
}

func isOrderedMap(t types.Type) bool {
	n, ok := t.(*types.Named)
	if !ok || n.Obj().Pkg() == nil {
		return false
	}
	return n.Obj().Name() == "Map" && strings.HasSuffix(n.Obj().Pkg().Path(), "internal/orderedmap")
}
