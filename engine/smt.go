package main

import (
	"bufio"
	"fmt"
	"io"
	"math"
	"os/exec"
	"strconv"
	"strings"
	"time"
)

// Term is an SMT-LIB2 term. Sort is one of
//
//	"Bool", "Int" (choice variables, lengths), "(_ BitVec N)" (Go integers),
//	"F64", "F32" (Go floats), "Str" (abstract strings, uninterpreted sort).
type Term struct {
	S    string
	Sort string
	// Op/Kids keep the boolean structure (and/or/not) so that the engine can
	// evaluate a condition against the facts already asserted on the path.
	Op   string
	Kids []*Term
}

var tTrue = mkTerm("true", "Bool")
var tFalse = mkTerm("false", "Bool")

func bvSort(bits int) string { return fmt.Sprintf("(_ BitVec %d)", bits) }

func sortBits(sort string) int {
	if !strings.HasPrefix(sort, "(_ BitVec ") {
		return 0
	}
	n, _ := strconv.Atoi(strings.TrimSuffix(strings.TrimPrefix(sort, "(_ BitVec "), ")"))
	return n
}

func tNot(a *Term) *Term {
	switch a {
	case tTrue:
		return tFalse
	case tFalse:
		return tTrue
	}
	if a.Op == "not" {
		return a.Kids[0]
	}
	return &Term{S: "(not " + a.S + ")", Sort: "Bool", Op: "not", Kids: []*Term{a}}
}
func tAnd(a, b *Term) *Term {
	if a == tFalse || b == tFalse {
		return tFalse
	}
	if a == tTrue {
		return b
	}
	if b == tTrue {
		return a
	}
	if a.S == b.S {
		return a
	}
	return &Term{S: "(and " + a.S + " " + b.S + ")", Sort: "Bool", Op: "and", Kids: []*Term{a, b}}
}
func tOr(a, b *Term) *Term {
	if a == tTrue || b == tTrue {
		return tTrue
	}
	if a == tFalse {
		return b
	}
	if b == tFalse {
		return a
	}
	if a.S == b.S {
		return a
	}
	return &Term{S: "(or " + a.S + " " + b.S + ")", Sort: "Bool", Op: "or", Kids: []*Term{a, b}}
}
func tIte(c, a, b *Term) *Term {
	if c == tTrue {
		return a
	}
	if c == tFalse {
		return b
	}
	if a.S == b.S {
		return a
	}
	if a.Sort == "Bool" {
		if a == tTrue && b == tFalse {
			return c
		}
		if a == tFalse && b == tTrue {
			return tNot(c)
		}
	}
	return mkTerm("(ite "+c.S+" "+a.S+" "+b.S+")", a.Sort)
}
func tEq(a, b *Term) *Term {
	if a.S == b.S {
		return tTrue
	}
	if a.Sort == "Bool" {
		if a == tTrue {
			return b
		}
		if b == tTrue {
			return a
		}
		if a == tFalse {
			return tNot(b)
		}
		if b == tFalse {
			return tNot(a)
		}
	}
	if a.Sort == "F64" || a.Sort == "F32" {
		return mkTerm("(fp.eq "+a.S+" "+b.S+")", "Bool")
	}
	return mkTerm("(= "+a.S+" "+b.S+")", "Bool")
}
func tInt(i int64) *Term {
	if i < 0 {
		return mkTerm(fmt.Sprintf("(- %d)", -i), "Int")
	}
	return mkTerm(fmt.Sprintf("%d", i), "Int")
}
func tBV(i int64, bits int) *Term {
	var u uint64 = uint64(i)
	if bits < 64 {
		u &= (uint64(1) << uint(bits)) - 1
	}
	return mkTerm(fmt.Sprintf("(_ bv%d %d)", u, bits), bvSort(bits))
}
func tBin(op string, a, b *Term, sort string) *Term {
	return mkTerm("("+op+" "+a.S+" "+b.S+")", sort)
}
func tBool(b bool) *Term {
	if b {
		return tTrue
	}
	return tFalse
}

func tF64(f float64) *Term {
	b := math.Float64bits(f)
	return mkTerm(fmt.Sprintf("(fp #b%01b #b%011b #b%052b)", b>>63, (b>>52)&0x7ff, b&((1<<52)-1)), "F64")
}
func tF32(f float32) *Term {
	b := math.Float32bits(f)
	return mkTerm(fmt.Sprintf("(fp #b%01b #b%08b #b%023b)", b>>31, (b>>23)&0xff, b&((1<<23)-1)), "F32")
}

func smtSort(s string) string {
	switch s {
	case "F64":
		return "(_ FloatingPoint 11 53)"
	case "F32":
		return "(_ FloatingPoint 8 24)"
	}
	return s
}

// ------------------------------------------------------------------ solver

type Solver struct {
	bin     string
	args    []string
	cmd     *exec.Cmd
	in      io.WriteCloser
	out     *bufio.Reader
	Queries int
	Sat     int
	Unsat   int
	Unknown int
	Time    time.Duration
	decls   map[string]bool
	log     *strings.Builder // transcript of the current path (for cross-checking)
}

const solverPrelude = `(set-option :produce-models true)
(declare-sort Str 0)
(declare-fun bytelen (Str) (_ BitVec 64))
(declare-fun runelen (Str) (_ BitVec 64))
`

func NewSolver(bin string, args ...string) *Solver {
	s := &Solver{bin: bin, args: args}
	s.start()
	return s
}

func (s *Solver) start() {
	cmd := exec.Command(s.bin, s.args...)
	in, _ := cmd.StdinPipe()
	outp, _ := cmd.StdoutPipe()
	cmd.Stderr = cmd.Stdout
	if err := cmd.Start(); err != nil {
		panic(err)
	}
	s.cmd, s.in, s.out = cmd, in, bufio.NewReaderSize(outp, 1<<16)
	s.decls = map[string]bool{}
	s.send(solverPrelude)
}

func (s *Solver) Close() {
	if s.cmd != nil {
		s.in.Close()
		s.cmd.Process.Kill()
		s.cmd.Wait()
		s.cmd = nil
	}
}

func (s *Solver) send(l string) {
	if s.log != nil {
		s.log.WriteString(l)
		s.log.WriteString("\n")
	}
	io.WriteString(s.in, l+"\n")
}
func (s *Solver) Reset() {
	s.send("(reset)")
	s.send(solverPrelude)
	s.decls = map[string]bool{}
}
func (s *Solver) Declare(name, sort string) {
	if s.decls[name] {
		return
	}
	s.decls[name] = true
	s.send("(declare-const " + name + " " + smtSort(sort) + ")")
}
func (s *Solver) Assert(t *Term) {
	if t == tTrue {
		return
	}
	s.send("(assert " + t.S + ")")
}
func (s *Solver) Push() { s.send("(push 1)") }
func (s *Solver) Pop()  { s.send("(pop 1)") }

type solverError struct{ msg string }

func (s *Solver) Check() string {
	t0 := time.Now()
	s.send("(check-sat)")
	line, err := s.out.ReadString('\n')
	s.Queries++
	s.Time += time.Since(t0)
	if err != nil {
		panic(solverError{"solver died: " + err.Error()})
	}
	line = strings.TrimSpace(line)
	switch line {
	case "sat":
		s.Sat++
	case "unsat":
		s.Unsat++
	case "unknown":
		s.Unknown++
	default:
		// any (error ...) line or unexpected output: inconclusive and fatal for this path
		panic(solverError{"solver said: " + line})
	}
	return line
}

// CheckWith returns the satisfiability of pc ∧ extra.
func (s *Solver) CheckWith(extra *Term) string {
	if extra == tTrue {
		return s.Check()
	}
	if extra == tFalse {
		return "unsat"
	}
	s.Push()
	s.Assert(extra)
	r := s.Check()
	s.Pop()
	return r
}

// Values evaluates the given terms in the current model (after a sat answer).
func (s *Solver) Values(terms []string) []string {
	if len(terms) == 0 {
		return nil
	}
	s.send("(get-value (" + strings.Join(terms, " ") + "))")
	var sb strings.Builder
	depth := 0
	started := false
	for {
		line, err := s.out.ReadString('\n')
		if err != nil {
			panic(solverError{"solver died in get-value"})
		}
		if strings.Contains(line, "(error") {
			panic(solverError{"get-value: " + strings.TrimSpace(line)})
		}
		sb.WriteString(line)
		depth += strings.Count(line, "(") - strings.Count(line, ")")
		if strings.Contains(line, "(") {
			started = true
		}
		if started && depth <= 0 {
			break
		}
	}
	top := parseSexp(sb.String())
	out := make([]string, len(terms))
	if lst, ok := top.([]interface{}); ok {
		for i := range terms {
			if i < len(lst) {
				if pair, ok := lst[i].([]interface{}); ok && len(pair) == 2 {
					out[i] = sexpString(pair[1])
				}
			}
		}
	}
	return out
}

// --- tiny s-expression reader (enough for get-value answers)

func parseSexp(s string) interface{} {
	toks := tokenize(s)
	pos := 0
	var rd func() interface{}
	rd = func() interface{} {
		if pos >= len(toks) {
			return nil
		}
		t := toks[pos]
		pos++
		if t == "(" {
			var l []interface{}
			for pos < len(toks) && toks[pos] != ")" {
				l = append(l, rd())
			}
			pos++
			return l
		}
		return t
	}
	return rd()
}

func tokenize(s string) []string {
	var toks []string
	i := 0
	for i < len(s) {
		c := s[i]
		switch {
		case c == '(' || c == ')':
			toks = append(toks, string(c))
			i++
		case c == ' ' || c == '\n' || c == '\t' || c == '\r':
			i++
		case c == '"':
			j := i + 1
			for j < len(s) && s[j] != '"' {
				j++
			}
			toks = append(toks, s[i:j+1])
			i = j + 1
		case c == '|':
			j := i + 1
			for j < len(s) && s[j] != '|' {
				j++
			}
			toks = append(toks, s[i:j+1])
			i = j + 1
		default:
			j := i
			for j < len(s) && !strings.ContainsRune("() \n\t\r", rune(s[j])) {
				j++
			}
			toks = append(toks, s[i:j])
			i = j
		}
	}
	return toks
}

func sexpString(x interface{}) string {
	switch v := x.(type) {
	case string:
		return v
	case []interface{}:
		parts := make([]string, len(v))
		for i, e := range v {
			parts[i] = sexpString(e)
		}
		return "(" + strings.Join(parts, " ") + ")"
	}
	return ""
}

// modelInt decodes an Int or BitVec model value into an int64 (bit pattern for BV).
func modelInt(v string) (int64, bool) {
	v = strings.TrimSpace(v)
	if strings.HasPrefix(v, "#x") {
		u, err := strconv.ParseUint(v[2:], 16, 64)
		return int64(u), err == nil
	}
	if strings.HasPrefix(v, "#b") {
		u, err := strconv.ParseUint(v[2:], 2, 64)
		return int64(u), err == nil
	}
	if strings.HasPrefix(v, "(_ bv") {
		f := strings.Fields(v[5:])
		u, err := strconv.ParseUint(f[0], 10, 64)
		return int64(u), err == nil
	}
	if strings.HasPrefix(v, "(- ") {
		n, err := strconv.ParseInt(strings.TrimSuffix(v[3:], ")"), 10, 64)
		return -n, err == nil
	}
	n, err := strconv.ParseInt(v, 10, 64)
	return n, err == nil
}

// modelFloat decodes an FP model value "(fp #b0 #b... #b...)" and special values.
func modelFloat(v string, bits int) (float64, bool) {
	v = strings.TrimSpace(v)
	if strings.HasPrefix(v, "(fp ") {
		f := strings.Fields(strings.TrimSuffix(v[4:], ")"))
		if len(f) != 3 {
			return 0, false
		}
		parse := func(s string) uint64 {
			if strings.HasPrefix(s, "#b") {
				u, _ := strconv.ParseUint(s[2:], 2, 64)
				return u
			}
			if strings.HasPrefix(s, "#x") {
				u, _ := strconv.ParseUint(s[2:], 16, 64)
				return u
			}
			return 0
		}
		sg, ex, mn := parse(f[0]), parse(f[1]), parse(f[2])
		if bits == 64 {
			return math.Float64frombits(sg<<63 | ex<<52 | mn), true
		}
		return float64(math.Float32frombits(uint32(sg<<31 | ex<<23 | mn))), true
	}
	switch {
	case strings.Contains(v, "+zero"):
		return 0, true
	case strings.Contains(v, "-zero"):
		return math.Copysign(0, -1), true
	case strings.Contains(v, "+oo"):
		return math.Inf(1), true
	case strings.Contains(v, "-oo"):
		return math.Inf(-1), true
	case strings.Contains(v, "NaN"):
		return math.NaN(), true
	}
	return 0, false
}

func mkTerm(s, sort string) *Term { return &Term{S: s, Sort: sort} }
