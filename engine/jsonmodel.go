package main

import (
	"fmt"
	"go/token"
	"go/types"
	"reflect"
	"strings"
)

// JSON documents as symbolic trees (DESIGN §7, C08 strict decoder).
//
// A []byte / json.RawMessage holding a JSON document is a *JSONVal: a handle to a tree
// value of the harness type zzverif.J (shape concrete on a path, leaves symbolic). Only the
// operations the generated decoders use are given meaning: json.Unmarshal into the Go leaf
// types with their DOCUMENTED contract, nil comparison, string(x) != "null".
type JSONVal struct{ Node *Agg }

// field indexes of zzverif.J
const (
	jKind = iota
	jBool
	jNum
	jFrac
	jStr
	jArr
	jKeys
	jVals
)

const (
	jkNull = iota
	jkBool
	jkNumber
	jkString
	jkArray
	jkObject
)

func (e *Engine) jsonKind(n *Agg) int {
	k, ok := n.F[jKind].(int64)
	if !ok {
		panic(abort{"JSON node kind must be concrete (shape choice)"})
	}
	return int(k)
}

type jsonMismatch struct{ why string }

// jsonUnmarshal implements encoding/json.Unmarshal(data, target) for a JSONVal document.
func (e *Engine) jsonUnmarshal(doc *JSONVal, target Iface) Value {
	if target.T == nil {
		return e.newErr("json: Unmarshal(nil)", nil, false)
	}
	pt, ok := target.T.(*types.Pointer)
	if !ok {
		return e.newErr("json: Unmarshal(non-pointer)", nil, false)
	}
	p := target.V.(Pointer)
	if p.O == nil {
		return e.newErr("json: Unmarshal(nil pointer)", nil, false)
	}
	var res Value = Iface{}
	func() {
		defer func() {
			if r := recover(); r != nil {
				if m, ok := r.(jsonMismatch); ok {
					res = e.newErr("json: cannot unmarshal: "+m.why, nil, false)
					return
				}
				panic(r)
			}
		}()
		cur := loadPtr(p)
		nv := e.jsonDecode(doc.Node, pt.Elem(), cur)
		storePtr(p, nv)
	}()
	return res
}

func hasCustomUnmarshal(t types.Type) bool {
	ms := types.NewMethodSet(types.NewPointer(t))
	return ms.Lookup(nil, "UnmarshalJSON") != nil
}

func isRawMessage(t types.Type) bool {
	n, ok := t.(*types.Named)
	return ok && n.Obj().Pkg() != nil && n.Obj().Pkg().Path() == "encoding/json" && n.Obj().Name() == "RawMessage"
}

// jsonDecode decodes node into a value of type t; cur is the current value of the target
// (kept when the document holds null, as encoding/json does).
func (e *Engine) jsonDecode(node *Agg, t types.Type, cur Value) Value {
	kind := e.jsonKind(node)
	if isRawMessage(t) {
		return &JSONVal{Node: node}
	}
	if _, isNamed := t.(*types.Named); isNamed && hasCustomUnmarshal(t) {
		panic(abort{"json.Unmarshal into a type with a custom UnmarshalJSON: " + t.String()})
	}
	switch u := t.Underlying().(type) {
	case *types.Pointer:
		if kind == jkNull {
			return Pointer{}
		}
		var inner Value = zero(u.Elem())
		if cp, ok := cur.(Pointer); ok && cp.O != nil {
			inner = loadPtr(cp)
		}
		return Pointer{O: e.newObj(e.jsonDecode(node, u.Elem(), inner), "json")}
	case *types.Interface:
		if u.NumMethods() != 0 {
			panic(abort{"json.Unmarshal into a non-empty interface"})
		}
		return e.jsonGeneric(node)
	}
	if kind == jkNull {
		return cur // null leaves non-pointer targets unchanged
	}
	switch u := t.Underlying().(type) {
	case *types.Basic:
		switch {
		case u.Info()&types.IsString != 0:
			if kind != jkString {
				panic(jsonMismatch{"value into Go string"})
			}
			return node.F[jStr]
		case u.Info()&types.IsBoolean != 0:
			if kind != jkBool {
				panic(jsonMismatch{"value into Go bool"})
			}
			return node.F[jBool]
		case u.Info()&types.IsInteger != 0:
			if kind != jkNumber {
				panic(jsonMismatch{"value into Go integer"})
			}
			if e.branch(node.F[jFrac]) {
				panic(jsonMismatch{"non-integral number into Go integer"})
			}
			ii, _ := intInfoOf(u)
			n := node.F[jNum]
			// range check for the target width
			if ii.bits < 64 || ii.unsigned {
				lo, hi := int64(0), int64(0)
				switch {
				case ii.unsigned && ii.bits == 64:
					lo, hi = 0, int64(^uint64(0)>>1)
				case ii.unsigned:
					lo, hi = 0, int64(uint64(1)<<uint(ii.bits)-1)
				default:
					lo, hi = -(int64(1) << uint(ii.bits-1)), int64(1)<<uint(ii.bits-1)-1
				}
				nt := intTerm(n, 64)
				inRange := tAnd(tBin("bvsle", tBV(lo, 64), nt, "Bool"), tBin("bvsle", nt, tBV(hi, 64), "Bool"))
				if !e.branch(boolVal(inRange)) {
					panic(jsonMismatch{"number out of range for the Go integer type"})
				}
			}
			return e.convert(n, types.Typ[types.Int64], t)
		case u.Info()&types.IsFloat != 0:
			if kind != jkNumber {
				panic(jsonMismatch{"value into Go float"})
			}
			f := e.convert(node.F[jNum], types.Typ[types.Int64], types.Typ[types.Float64])
			if e.branch(node.F[jFrac]) {
				f = e.floatBinop(token.ADD, f, float64(0.5), 64)
			}
			return e.convert(f, types.Typ[types.Float64], t)
		}
	case *types.Slice:
		if kind != jkArray {
			panic(jsonMismatch{"value into Go slice"})
		}
		elems := sliceElems(node.F[jArr].(Slice))
		out := make([]Value, len(elems))
		for i, el := range elems {
			out[i] = e.jsonDecode(el.(*Agg), u.Elem(), zero(u.Elem()))
		}
		return Slice{O: e.newObj(&Agg{F: out}, "json[]"), Len: len(out), Cap: len(out)}
	case *types.Map:
		if kind != jkObject {
			panic(jsonMismatch{"value into Go map"})
		}
		if b, ok := u.Key().Underlying().(*types.Basic); !ok || b.Info()&types.IsString == 0 {
			panic(abort{"json.Unmarshal into a map with non-string keys"})
		}
		m, _ := cur.(*MapV)
		if m == nil {
			e.nextID++
			m = &MapV{ID: e.nextID, Tag: "json{}"}
		}
		keys := sliceElems(node.F[jKeys].(Slice))
		vals := sliceElems(node.F[jVals].(Slice))
		for i := range keys {
			e.mapUpdate(m, keys[i], e.jsonDecode(vals[i].(*Agg), u.Elem(), zero(u.Elem())))
		}
		return m
	case *types.Struct:
		if kind != jkObject {
			panic(jsonMismatch{"value into Go struct"})
		}
		agg, _ := copyVal(cur).(*Agg)
		keys := sliceElems(node.F[jKeys].(Slice))
		vals := sliceElems(node.F[jVals].(Slice))
		for i := range keys {
			key := e.concreteStr(keys[i])
			idx := -1
			for f := 0; f < u.NumFields(); f++ {
				if !u.Field(f).Exported() {
					continue
				}
				name := u.Field(f).Name()
				if tag := reflect.StructTag(u.Tag(f)).Get("json"); tag != "" {
					if tn := strings.Split(tag, ",")[0]; tn == "-" {
						continue
					} else if tn != "" {
						name = tn
					}
				}
				if name == key || (idx < 0 && strings.EqualFold(name, key)) {
					idx = f
					if name == key {
						break
					}
				}
			}
			if idx >= 0 {
				agg.F[idx] = e.jsonDecode(vals[i].(*Agg), u.Field(idx).Type(), agg.F[idx])
			}
		}
		return agg
	}
	panic(abort{"json.Unmarshal into unsupported type " + t.String()})
}

// jsonGeneric decodes into `any`: nil, bool, float64, string, []any, map[string]any.
func (e *Engine) jsonGeneric(node *Agg) Value {
	anyT := types.NewInterfaceType(nil, nil)
	switch e.jsonKind(node) {
	case jkNull:
		return Iface{}
	case jkBool:
		return Iface{T: types.Typ[types.Bool], V: node.F[jBool]}
	case jkNumber:
		f := e.convert(node.F[jNum], types.Typ[types.Int64], types.Typ[types.Float64])
		if e.branch(node.F[jFrac]) {
			f = e.floatBinop(token.ADD, f, float64(0.5), 64)
		}
		return Iface{T: types.Typ[types.Float64], V: f}
	case jkString:
		return Iface{T: types.Typ[types.String], V: node.F[jStr]}
	case jkArray:
		var out []Value
		for _, el := range sliceElems(node.F[jArr].(Slice)) {
			out = append(out, e.jsonGeneric(el.(*Agg)))
		}
		return Iface{T: types.NewSlice(anyT), V: Slice{O: e.newObj(&Agg{F: out}, "json[]any"), Len: len(out), Cap: len(out)}}
	default:
		e.nextID++
		m := &MapV{ID: e.nextID, Tag: "json{}any"}
		keys := sliceElems(node.F[jKeys].(Slice))
		vals := sliceElems(node.F[jVals].(Slice))
		for i := range keys {
			e.mapUpdate(m, keys[i], e.jsonGeneric(vals[i].(*Agg)))
		}
		return Iface{T: types.NewMap(types.Typ[types.String], anyT), V: m}
	}
}

func (j *JSONVal) String() string { return fmt.Sprintf("json(kind=%v)", j.Node.F[jKind]) }
