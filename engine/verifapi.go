package main

import (
	"fmt"
	"go/types"
	"strings"

	"golang.org/x/tools/go/ssa"
)

// verifIntrinsic implements the harness API (package .../internal/zzverif).
func (e *Engine) verifIntrinsic(fn *ssa.Function, args []Value) (Value, bool) {
	name := fn.Name()
	if o := fn.Origin(); o != nil {
		name = o.Name()
	}
	switch name {
	case "Tier":
		return int64(e.sh.cfg.Tier), true
	case "Choose":
		n := int(args[0].(int64))
		if n <= 0 {
			panic(pathEnd{})
		}
		c := e.chooseN(n)
		e.draws = append(e.draws, &Draw{Kind: "choose", Name: fmt.Sprint(n), Val: c})
		return int64(c), true
	case "Bool":
		t := e.freshVar("b_"+e.concreteStr(args[0]), "Bool")
		e.draws = append(e.draws, &Draw{Kind: "bool", Name: e.concreteStr(args[0]), Var: t.S})
		return t, true
	case "Int":
		lo, hi := args[1].(int64), args[2].(int64)
		if lo == hi {
			e.draws = append(e.draws, &Draw{Kind: "int", Name: e.concreteStr(args[0]), Bits: 64, Val: lo})
			return lo, true
		}
		t := e.freshVar("i_"+e.concreteStr(args[0]), bvSort(64))
		e.solver.Assert(tAnd(tBin("bvsle", tBV(lo, 64), t, "Bool"), tBin("bvsle", t, tBV(hi, 64), "Bool")))
		e.draws = append(e.draws, &Draw{Kind: "int", Name: e.concreteStr(args[0]), Var: t.S, Bits: 64})
		return t, true
	case "Int64", "Int32", "Int16", "Int8", "Uint64", "Uint32", "Uint16", "Uint8":
		ii, _ := intInfoOf(fn.Signature.Results().At(0).Type())
		t := e.freshVar("n_"+e.concreteStr(args[0]), bvSort(ii.bits))
		d := &Draw{Kind: "int", Name: e.concreteStr(args[0]), Var: t.S, Bits: ii.bits}
		if ii.unsigned {
			d.Kind = "uint"
		}
		e.draws = append(e.draws, d)
		return t, true
	case "Float64", "Float32":
		bits := floatBits(fn.Signature.Results().At(0).Type())
		sort := "F64"
		if bits == 32 {
			sort = "F32"
		}
		t := e.freshVar("f_"+e.concreteStr(args[0]), sort)
		// values obtainable by decoding JSON: finite
		e.solver.Assert(tNot(mkTerm("(fp.isNaN "+t.S+")", "Bool")))
		e.solver.Assert(tNot(mkTerm("(fp.isInfinite "+t.S+")", "Bool")))
		e.draws = append(e.draws, &Draw{Kind: "float", Name: e.concreteStr(args[0]), Var: t.S, Bits: bits})
		return t, true
	case "Str":
		sl := args[1].(Slice)
		var alts []string
		for _, v := range sliceElems(sl) {
			alts = append(alts, e.concreteStr(v))
		}
		if len(alts) == 0 {
			panic(pathEnd{})
		}
		if len(alts) == 1 {
			e.draws = append(e.draws, &Draw{Kind: "str", Name: e.concreteStr(args[0]), Alts: alts, Val: 0})
			return alts[0], true
		}
		idx := e.freshVar("s_"+e.concreteStr(args[0]), "Int")
		e.solver.Assert(tAnd(tBin("<=", tInt(0), idx, "Bool"), tBin("<", idx, tInt(int64(len(alts))), "Bool")))
		u := &UStr{}
		for i, a := range alts {
			u.Alts = append(u.Alts, UAlt{tEq(idx, tInt(int64(i))), a})
		}
		e.draws = append(e.draws, &Draw{Kind: "str", Name: e.concreteStr(args[0]), Var: idx.S, Alts: alts})
		return normUStr(u), true
	case "AStr":
		t := e.freshVar("a_"+e.concreteStr(args[0]), "Str")
		e.registerStrTerm(t)
		e.draws = append(e.draws, &Draw{Kind: "astr", Name: e.concreteStr(args[0]), Var: t.S})
		return t, true
	case "Assume":
		if !e.assume(args[0]) {
			e.count("paths_assume_false", 1)
			panic(pathEnd{})
		}
		return nil, true
	case "Assert":
		e.assert(args[0], e.concreteStr(args[1]))
		return nil, true
	case "Excuse":
		e.excuses[e.concreteStr(args[0])] = asBoolTerm(args[1])
		return nil, true
	case "ClearExcuses":
		e.excuses = map[string]*Term{}
		return nil, true
	case "Freeze":
		e.freeze(args[0], true)
		return nil, true
	case "Unfreeze":
		e.freeze(args[0], false)
		return nil, true
	case "CheckFrozen":
		return nil, true
	case "Observe":
		return nil, true
	case "Reach":
		e.sh.reachHit(e.entryName, e.concreteStr(args[0]))
		return nil, true
	case "DeepEqual":
		return boolVal(e.deepEqual(args[0], args[1], deepOpts{})), true
	case "DeepEqualNilEmpty":
		return boolVal(e.deepEqual(args[0], args[1], deepOpts{nilIsEmpty: true})), true
	case "CmpEqual":
		return boolVal(e.deepEqual(args[0], args[1], deepOpts{useEqualMethod: true})), true
	case "SharedHeap":
		return e.sharedHeap(args[0], args[1]), true
	case "JSONBytes":
		return &JSONVal{Node: copyVal(args[0]).(*Agg)}, true
	case "TempFile":
		doc, ok := e.docOf(args[0])
		if !ok || doc == nil {
			panic(abort{"TempFile on bytes the harness did not build with JSONBytes"})
		}
		if e.tempFiles == nil {
			e.tempFiles = map[string]*Agg{}
		}
		path := fmt.Sprintf("/verif-tmp/doc%d.yaml", len(e.tempFiles))
		e.tempFiles[path] = doc
		return path, true
	case "MapKeySetsDiffer":
		return boolVal(e.mapKeySetsDiffer(args[0], args[1], 0)), true
	case "SymOrder":
		e.symOrder = args[0].(bool)
		return nil, true
	case "And":
		return boolVal(tAnd(asBoolTerm(args[0]), asBoolTerm(args[1]))), true
	case "Or":
		return boolVal(tOr(asBoolTerm(args[0]), asBoolTerm(args[1]))), true
	case "Implies":
		return boolVal(tOr(tNot(asBoolTerm(args[0])), asBoolTerm(args[1]))), true
	case "IteStr":
		c := asBoolTerm(args[0])
		if c == tTrue {
			return args[1], true
		}
		if c == tFalse {
			return args[2], true
		}
		u := &UStr{}
		for _, a := range asUStr(args[1]).Alts {
			u.Alts = append(u.Alts, UAlt{tAnd(c, a.G), a.S})
		}
		for _, a := range asUStr(args[2]).Alts {
			u.Alts = append(u.Alts, UAlt{tAnd(tNot(c), a.G), a.S})
		}
		return normUStr(u), true
	case "SymValue":
		t := fn.Signature.Results().At(0).Type()
		return e.symValue(t, e.concreteStr(args[0]), int(args[1].(int64)), int(args[2].(int64))), true
	case "Clone":
		return e.cloneValue(args[0], map[*Obj]*Obj{}, map[*MapV]*MapV{}), true
	case "RegisterImpl":
		return nil, true // native-only registry; the engine asks go/types (implFor)
	case "Symbolic":
		return true, true
	case "Fatal":
		panic(harnessFatal{e.concreteStr(args[0])})
	case "Dump":
		return dump(args[0], 0), true
	case "TypeName":
		if it, ok := args[0].(Iface); ok && it.T != nil {
			return types.TypeString(it.T, func(p *types.Package) string { return p.Name() }), true
		}
		return "<nil>", true
	}
	return nil, false
}

type harnessFatal struct{ msg string }

func (e *Engine) replaying() bool { return e.depth < len(e.prefix) }

func (e *Engine) assume(c Value) bool {
	switch b := c.(type) {
	case bool:
		return b
	case *Term:
		if e.replaying() { // assumption already known feasible on the parent path
			e.assertPC(b)
			return true
		}
		switch e.evalKB(b) {
		case 1:
			return true
		case 0:
			return false
		}
		if e.solver.CheckWith(b) == "unsat" {
			return false
		}
		e.assertPC(b)
		return true
	}
	panic(abort{"assume on non-bool"})
}

// activeExcuses returns the listed known-finding excuses that apply to an event key.
func (e *Engine) activeExcuses(key string) (names []string, terms []*Term) {
	for _, k := range e.sh.cfg.Known {
		if k.Entry != "" && k.Entry != e.entryName && !(strings.HasSuffix(k.Entry, "*") && strings.HasPrefix(e.entryName, strings.TrimSuffix(k.Entry, "*"))) {
			continue
		}
		if k.Match != "" && !strings.Contains(key, k.Match) {
			continue
		}
		if k.Excuse == "" {
			names = append(names, k.ID)
			terms = append(terms, tTrue)
			continue
		}
		if t, ok := e.excuses[k.Excuse]; ok {
			names = append(names, k.ID)
			terms = append(terms, t)
		}
	}
	return
}

// report decides, for an event that happens when `neg` holds under the current
// path condition, whether (a) a violation no known finding explains exists and
// (b) which known findings are hit. It records one model per group.
func (e *Engine) report(kind, msg string, neg *Term) {
	fn, stack := e.blameFunc()
	if kind == "assert" {
		fn = e.entryName // assertions live in the harness: the entry names them
	}
	if kind == "hang" {
		for _, f := range e.stack {
			if !isHarnessFunc(f) && isUnderTest(f) {
				fn = f.String()
				break
			}
		}
	}
	key := kind + ":" + msg + "@" + fn
	names, terms := e.activeExcuses(key)
	notKnown := tTrue
	for _, t := range terms {
		notKnown = tAnd(notKnown, tNot(t))
	}
	check := func(cond *Term, excuse string) {
		if cond == tFalse {
			return
		}
		e.solver.Push()
		e.solver.Assert(cond)
		r := e.solver.Check()
		if r == "sat" {
			e.sh.recordEvent(e, kind, msg, fn, stack, excuse)
		} else if r == "unknown" {
			e.count("assertion_queries_unknown", 1)
		}
		e.solver.Pop()
	}
	check(tAnd(neg, notKnown), "")
	for i, t := range terms {
		check(tAnd(neg, t), names[i])
	}
}

func (e *Engine) assert(c Value, msg string) {
	var neg *Term
	switch b := c.(type) {
	case bool:
		neg = tBool(!b)
	case *Term:
		neg = tNot(b)
	default:
		panic(abort{"assert on non-bool"})
	}
	if e.replaying() {
		// already examined on the path this one was forked from
		if neg == tTrue {
			panic(pathEnd{})
		}
		e.assertPC(tNot(neg))
		return
	}
	e.sh.assertHit(e.entryName, msg, neg != tFalse && neg != tTrue)
	if e.sh.cfg.Witness {
		// vacuity twin: the assertion is replaced by assert(false); reaching it is the witness
		return
	}
	if neg == tFalse {
		return
	}
	e.report("assert", msg, neg)
	if neg == tTrue {
		panic(pathEnd{})
	}
	e.assertPC(tNot(neg)) // continue under the assumption that the assertion held
}

// blameFunc: innermost function of the code under test on the stack (not harness code).
func (e *Engine) blameFunc() (string, []string) {
	var stack []string
	blame := ""
	for i := len(e.stack) - 1; i >= 0; i-- {
		f := e.stack[i]
		stack = append(stack, f.String())
		if blame == "" && !isHarnessFunc(f) && isUnderTest(f) {
			blame = f.String()
		}
	}
	if blame == "" && len(e.stack) > 0 {
		blame = e.stack[len(e.stack)-1].String()
	}
	if len(stack) > 12 {
		stack = stack[:12]
	}
	return blame, stack
}

func funcFile(f *ssa.Function) string {
	for f.Parent() != nil {
		f = f.Parent()
	}
	if o := f.Origin(); o != nil {
		f = o
	}
	if f.Prog == nil || !f.Pos().IsValid() {
		return ""
	}
	return f.Prog.Fset.Position(f.Pos()).Filename
}

func isHarnessFunc(f *ssa.Function) bool {
	file := funcFile(f)
	return strings.Contains(file, "zz_verif") || strings.Contains(file, "/zzverif/")
}

func isUnderTest(f *ssa.Function) bool {
	for f.Parent() != nil {
		f = f.Parent()
	}
	if o := f.Origin(); o != nil {
		f = o
	}
	if f.Pkg == nil {
		return false
	}
	p := f.Pkg.Pkg.Path()
	return !strings.Contains(p, "zzverif") && (strings.HasPrefix(p, underTestPrefix) || underTestPrefix == "")
}

var underTestPrefix = "github.com/grafana/cog"
