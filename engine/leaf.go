package main

import (
	"bufio"
	"io"
	"os/exec"
	"strconv"
	"strings"
	"sync"
)

// Native-lifted pure leaf functions: executed natively, on each concrete
// alternative, by a helper binary built from /repo's current tree on this run.
// All have the signature func(string) string.
var leafFuncs = map[string]string{
	"github.com/grafana/cog/internal/tools.UpperSnakeCase": "UpperSnakeCase",
	"github.com/grafana/cog/internal/tools.SnakeCase":      "SnakeCase",
	"github.com/grafana/cog/internal/tools.UpperCamelCase": "UpperCamelCase",
	"github.com/grafana/cog/internal/tools.LowerCamelCase": "LowerCamelCase",
	"github.com/grafana/cog/internal/tools.CleanupNames":   "CleanupNames",
	"github.com/grafana/cog/internal/tools.Singularize":    "Singularize",
}

type leafServer struct {
	mu    sync.Mutex
	cmd   *exec.Cmd
	in    io.WriteCloser
	out   *bufio.Reader
	cache map[string]string
	calls int
}

func startLeaf(bin string) *leafServer {
	cmd := exec.Command(bin)
	in, _ := cmd.StdinPipe()
	outp, _ := cmd.StdoutPipe()
	if err := cmd.Start(); err != nil {
		fatal(err)
	}
	return &leafServer{cmd: cmd, in: in, out: bufio.NewReader(outp), cache: map[string]string{}}
}

func (l *leafServer) close() {
	l.in.Close()
	l.cmd.Wait()
}

func (l *leafServer) call(fn, arg string) string {
	l.mu.Lock()
	defer l.mu.Unlock()
	k := fn + "\x00" + arg
	if r, ok := l.cache[k]; ok {
		return r
	}
	io.WriteString(l.in, fn+"\t"+strconv.Quote(arg)+"\n")
	line, err := l.out.ReadString('\n')
	if err != nil {
		panic(abort{"leaf server died"})
	}
	r, err := strconv.Unquote(strings.TrimSpace(line))
	if err != nil {
		panic(abort{"leaf server: bad answer " + line})
	}
	l.cache[k] = r
	l.calls++
	return r
}

func (e *Engine) callLeaf(name, short string, args []Value) Value {
	return liftStr1(args[0], func(s string) string { return e.sh.leaf.call(short, s) })
}
