package main

import (
	"fmt"
	"go/token"
	"math"
	"regexp"
	"go/types"
	"strconv"
	"strings"
	"unicode"
	"unicode/utf8"

	"golang.org/x/tools/go/ssa"
)

const verifPkgSuffix = "/internal/zzverif"

var errorType = types.Universe.Lookup("error").Type()

// engineErrType is the dynamic type of errors created by errors.New/fmt.Errorf/errors.Join.
var engineErrType types.Type = types.NewPointer(types.NewNamed(types.NewTypeName(token.NoPos, nil, "engineError", nil), types.NewStruct(nil, nil), nil))

func (e *Engine) newErr(msg Value, wrapped []Value, joined bool) Iface {
	e.nextID++
	return Iface{T: engineErrType, V: &ErrV{ID: e.nextID, Msg: msg, Wrapped: wrapped, Joined: joined}}
}

func (e *Engine) errMsg(ev *ErrV) Value {
	if !ev.Joined {
		return ev.Msg
	}
	var parts []Value
	for _, w := range ev.Wrapped {
		parts = append(parts, e.errorString(w.(Iface)))
	}
	res := Value("")
	for i, p := range parts {
		if i > 0 {
			res = liftStr2(res, "\n", func(a, b string) string { return a + b })
		}
		res = liftStr2(res, p, func(a, b string) string { return a + b })
	}
	return res
}

// errorString calls Error() on an error interface value.
func (e *Engine) errorString(it Iface) Value {
	if it.T == nil {
		return "<nil>"
	}
	if ev, ok := it.V.(*ErrV); ok {
		return e.errMsg(ev)
	}
	sel := e.prog.MethodSets.MethodSet(it.T).Lookup(nil, "Error")
	if sel == nil {
		panic(abort{"Error() not found on " + it.T.String()})
	}
	return e.callFn(e.prog.MethodValue(sel), []Value{it.V}, nil)
}

func (e *Engine) unwrapAll(it Iface) []Iface {
	if it.T == nil {
		return nil
	}
	if ev, ok := it.V.(*ErrV); ok {
		var out []Iface
		for _, w := range ev.Wrapped {
			out = append(out, w.(Iface))
		}
		return out
	}
	ms := e.prog.MethodSets.MethodSet(it.T)
	if sel := ms.Lookup(nil, "Unwrap"); sel != nil {
		r := e.callFn(e.prog.MethodValue(sel), []Value{it.V}, nil)
		switch x := r.(type) {
		case Iface:
			if x.T != nil {
				return []Iface{x}
			}
		case Slice:
			var out []Iface
			for _, v := range sliceElems(x) {
				if w, ok := v.(Iface); ok && w.T != nil {
					out = append(out, w)
				}
			}
			return out
		}
	}
	return nil
}

func (e *Engine) intrinsic(fn *ssa.Function, args []Value) (Value, bool) {
	if fn.Pkg != nil && strings.HasSuffix(fn.Pkg.Pkg.Path(), verifPkgSuffix) {
		if r, ok := e.verifIntrinsic(fn, args); ok {
			return r, true
		}
	}
	if fn.Pkg == nil && fn.Origin() != nil && fn.Origin().Pkg != nil && strings.HasSuffix(fn.Origin().Pkg.Pkg.Path(), verifPkgSuffix) {
		if r, ok := e.verifIntrinsic(fn, args); ok {
			return r, true
		}
	}
	name := fn.String()
	if h, ok := stringIntrinsics[name]; ok {
		return h(e, args), true
	}
	if r, ok := e.jsonStreamIntrinsic(fn, name, args); ok {
		return r, true
	}
	if r, ok := e.yamlIntrinsic(fn, name, args); ok {
		return r, true
	}
	switch name {
	case "encoding/json.Unmarshal":
		if doc, ok := args[0].(*JSONVal); ok {
			return e.jsonUnmarshal(doc, args[1].(Iface)), true
		}
		if txt, ok := args[0].(*JSONText); ok {
			if tree := e.jsonTextToTree(txt); tree != nil {
				return e.jsonUnmarshal(&JSONVal{Node: tree}, args[1].(Iface)), true
			}
			return e.newErr("invalid character in JSON text", nil, false), true
		}
		if sl, ok := args[0].(Slice); ok && sl.O == nil {
			return e.newErr("unexpected end of JSON input", nil, false), true
		}
		panic(abort{"encoding/json.Unmarshal on bytes the harness did not build with JSONBytes"})
	case "errors.New":
		return e.newErr(args[0], nil, false), true
	case "fmt.Errorf", "fmt.Sprintf":
		va := args[1].(Slice)
		msg := e.sprintf(args[0], va)
		if name == "fmt.Sprintf" {
			return msg, true
		}
		var wrapped []Value
		if f, ok := args[0].(string); ok && strings.Contains(f, "%w") {
			for _, v := range sliceElems(va) {
				if it, ok := v.(Iface); ok && it.T != nil && e.isError(it) {
					wrapped = append(wrapped, it)
				}
			}
		}
		return e.newErr(msg, wrapped, false), true
	case "fmt.Sprint":
		va := args[0].(Slice)
		var res Value = ""
		for _, v := range sliceElems(va) {
			res = liftStr2(res, e.sprintf("%v", e.sliceOf([]Value{v})), func(a, b string) string { return a + b })
		}
		return res, true
	case "fmt.Println", "fmt.Printf", "fmt.Print", "fmt.Fprintf", "fmt.Fprintln", "log.Printf", "log.Println":
		return &Agg{F: []Value{int64(0), Iface{}}}, true
	case "errors.As":
		return e.errorsAs(args[0].(Iface), args[1].(Iface)), true
	case "errors.Is":
		return e.errorsIs(args[0].(Iface), args[1].(Iface)), true
	case "errors.Unwrap":
		ws := e.unwrapAll(args[0].(Iface))
		if len(ws) == 1 {
			return ws[0], true
		}
		return Iface{}, true
	case "errors.Join":
		var wrapped []Value
		for _, v := range sliceElems(args[0].(Slice)) {
			if it := v.(Iface); it.T != nil {
				wrapped = append(wrapped, it)
			}
		}
		if len(wrapped) == 0 {
			return Iface{}, true
		}
		return e.newErr("joined", wrapped, true), true
	case "sort.Slice", "sort.SliceStable":
		sl := args[0].(Iface).V.(Slice)
		less := func(i, j int) bool {
			return e.branch(e.call(args[1], []Value{int64(i), int64(j)}))
		}
		e.sortSlice(sl, less)
		if name == "sort.Slice" {
			// sort.Slice is NOT stable: elements that compare equal may come out in either
			// order. After the stable pass every adjacent tie forks over keeping or swapping it.
			for i := 0; i+1 < sl.Len; i++ {
				if !less(i, i+1) && !less(i+1, i) && e.chooseN(2) == 1 {
					if sl.O.Frozen {
						panic(frozenWrite{"sort swaps elements of frozen backing array (" + sl.O.Tag + ")"})
					}
					arr := sl.O.Val.(*Agg)
					arr.F[sl.Off+i], arr.F[sl.Off+i+1] = arr.F[sl.Off+i+1], arr.F[sl.Off+i]
					e.draws = append(e.draws, &Draw{Kind: "order", Name: "unstable-sort-tie", Val: 1})
				}
			}
		}
		return nil, true
	case "sort.Strings":
		sl := args[0].(Slice)
		e.sortSlice(sl, func(i, j int) bool {
			el := sliceElems(sl)
			return e.branch(predStr2(el[i], el[j], func(a, b string) bool { return a < b }))
		})
		return nil, true
	case "sort.Ints":
		sl := args[0].(Slice)
		e.sortSlice(sl, func(i, j int) bool {
			el := sliceElems(sl)
			return e.branch(e.binop(token.LSS, el[i], el[j], types.Typ[types.Int], types.Typ[types.Int]))
		})
		return nil, true
	case "reflect.DeepEqual":
		return boolVal(e.deepEqual(args[0], args[1], deepOpts{})), true
	case "unicode/utf8.RuneCountInString":
		switch s := args[0].(type) {
		case *Term:
			return mkTerm("(runelen "+s.S+")", bvSort(64)), true
		}
		return int64(utf8.RuneCountInString(e.concreteStr(args[0]))), true
	case "unicode.IsUpper":
		return e.runePred(args[0], unicode.IsUpper), true
	case "unicode.IsLower":
		return e.runePred(args[0], unicode.IsLower), true
	case "unicode.IsLetter":
		return e.runePred(args[0], unicode.IsLetter), true
	case "unicode.IsDigit":
		return e.runePred(args[0], unicode.IsDigit), true
	case "unicode.IsNumber":
		return e.runePred(args[0], unicode.IsNumber), true
	case "unicode.IsSpace":
		return e.runePred(args[0], unicode.IsSpace), true
	case "unicode.IsPunct":
		return e.runePred(args[0], unicode.IsPunct), true
	case "unicode.ToUpper":
		return int64(unicode.ToUpper(rune(args[0].(int64)))), true
	case "unicode.ToLower":
		return int64(unicode.ToLower(rune(args[0].(int64)))), true
	case "math.IsNaN":
		if t, ok := args[0].(*Term); ok {
			return boolVal(mkTerm("(fp.isNaN "+t.S+")", "Bool")), true
		}
		f := args[0].(float64)
		return f != f, true
	case "math.IsInf":
		if t, ok := args[0].(*Term); ok {
			sign, ok := args[1].(int64)
			if !ok {
				panic(abort{"math.IsInf with symbolic sign"})
			}
			inf := mkTerm("(fp.isInfinite "+t.S+")", "Bool")
			switch {
			case sign > 0:
				return boolVal(tAnd(inf, mkTerm("(fp.isPositive "+t.S+")", "Bool"))), true
			case sign < 0:
				return boolVal(tAnd(inf, mkTerm("(fp.isNegative "+t.S+")", "Bool"))), true
			}
			return boolVal(inf), true
		}
	case "os.Getenv":
		return "", true
	case "math.Trunc", "math.Floor", "math.Ceil", "math.Abs", "math.Round":
		if f, ok := args[0].(float64); ok {
			switch name {
			case "math.Trunc":
				return math.Trunc(f), true
			case "math.Floor":
				return math.Floor(f), true
			case "math.Ceil":
				return math.Ceil(f), true
			case "math.Abs":
				return math.Abs(f), true
			default:
				return math.Round(f), true
			}
		}
		if t, ok := args[0].(*Term); ok {
			mode := map[string]string{"math.Trunc": "RTZ", "math.Floor": "RTN", "math.Ceil": "RTP", "math.Round": "RNA"}[name]
			if name == "math.Abs" {
				return mkTerm("(fp.abs "+t.S+")", t.Sort), true
			}
			return mkTerm("(fp.roundToIntegral "+mode+" "+t.S+")", t.Sort), true
		}
	}
	if strings.HasPrefix(name, "reflect.") || strings.HasPrefix(name, "(reflect.Value).") {
		if r, ok := e.reflectIntrinsic(name, args); ok {
			return r, true
		}
	}
	if strings.Contains(name, "regexp.") {
		if r, ok := e.regexpIntrinsic(name, args); ok {
			return r, true
		}
	}
	if h, ok := e.sh.extraIntrinsics[name]; ok {
		return h(e, fn, args), true
	}
	if strings.HasPrefix(name, "github.com/google/go-cmp/cmp.Equal") {
		return boolVal(e.deepEqual(args[0], args[1], deepOpts{useEqualMethod: true})), true
	}
	if e.sh.leaf != nil {
		if spec, ok := leafFuncs[name]; ok {
			return e.callLeaf(name, spec, args), true
		}
	}
	return nil, false
}

func (e *Engine) runePred(v Value, f func(rune) bool) Value {
	n, ok := v.(int64)
	if !ok {
		panic(abort{"unicode predicate on symbolic rune"})
	}
	return f(rune(n))
}

func (e *Engine) isError(it Iface) bool {
	if _, ok := it.V.(*ErrV); ok {
		return true
	}
	return types.Implements(it.T, errorType.Underlying().(*types.Interface))
}

func (e *Engine) errorsAs(err Iface, tgt Iface) Value {
	if tgt.T == nil {
		panic(goPanic{msg: "errors: target cannot be nil"})
	}
	want := tgt.T.(*types.Pointer).Elem()
	wantIface, isIface := want.Underlying().(*types.Interface)
	var walk func(it Iface) bool
	walk = func(it Iface) bool {
		if it.T == nil {
			return false
		}
		if isIface {
			if _, isEng := it.V.(*ErrV); !isEng && types.Implements(it.T, wantIface) {
				storePtr(tgt.V.(Pointer), it)
				return true
			}
		} else if types.Identical(it.T, want) {
			storePtr(tgt.V.(Pointer), it.V)
			return true
		}
		for _, w := range e.unwrapAll(it) {
			if walk(w) {
				return true
			}
		}
		return false
	}
	return walk(err)
}

func (e *Engine) errorsIs(err Iface, target Iface) Value {
	var walk func(it Iface) bool
	walk = func(it Iface) bool {
		if it.T == nil {
			return target.T == nil
		}
		if target.T != nil && types.Identical(it.T, target.T) && types.Comparable(it.T) {
			if e.branch(e.eqVal(it.V, target.V)) {
				return true
			}
		}
		for _, w := range e.unwrapAll(it) {
			if walk(w) {
				return true
			}
		}
		return false
	}
	return walk(err)
}

// sortSlice is a stable insertion sort that performs its swaps on the real
// backing array, so a `less(i, j)` closure that indexes the slice sees them.
func (e *Engine) sortSlice(sl Slice, less func(i, j int) bool) {
	if sl.Len > 1 && sl.O.Frozen {
		// a sort may leave the array unchanged; only actual swaps count as writes
	}
	for i := 1; i < sl.Len; i++ {
		for j := i; j > 0 && less(j, j-1); j-- {
			if sl.O.Frozen {
				panic(frozenWrite{"sort swaps elements of frozen backing array (" + sl.O.Tag + ")"})
			}
			arr := sl.O.Val.(*Agg)
			arr.F[sl.Off+j], arr.F[sl.Off+j-1] = arr.F[sl.Off+j-1], arr.F[sl.Off+j]
		}
	}
}

// ---------------------------------------------------------------- fmt lifting

const symPlaceholder = "⟨sym⟩"

// sprintf lifts fmt.Sprintf over guarded-union string operands.
func (e *Engine) sprintf(format Value, va Slice) Value {
	f := e.concreteStr(format)
	type alt struct {
		g    *Term
		args []interface{}
	}
	alts := []alt{{tTrue, nil}}
	for _, raw := range sliceElems(va) {
		it, _ := raw.(Iface)
		var guards []*Term
		var natives []interface{}
		v := it.V
		if it.T == nil {
			guards, natives = []*Term{tTrue}, []interface{}{nil}
		} else {
			if ev, ok := v.(*ErrV); ok {
				v = e.errMsg(ev)
			} else if !isBasicNonString(it.T) {
				ms := e.prog.MethodSets.MethodSet(it.T)
				if sel := ms.Lookup(nil, "Error"); sel != nil && e.isError(it) {
					v = e.callFn(e.prog.MethodValue(sel), []Value{it.V}, nil)
				} else if sel := ms.Lookup(nil, "String"); sel != nil && isStringerSig(sel) {
					v = e.callFn(e.prog.MethodValue(sel), []Value{it.V}, nil)
				}
			}
			switch x := v.(type) {
			case *UStr:
				for _, a := range x.Alts {
					guards = append(guards, a.G)
					natives = append(natives, a.S)
				}
			case string:
				guards, natives = []*Term{tTrue}, []interface{}{x}
			case int64:
				guards, natives = []*Term{tTrue}, []interface{}{nativeInt(x, it.T)}
			case bool:
				guards, natives = []*Term{tTrue}, []interface{}{x}
			case float64:
				guards, natives = []*Term{tTrue}, []interface{}{x}
			case *Term:
				if vals, ok := e.enumInt(x, it.T, 8); ok {
					// an integer with a small feasible domain: one alternative per value
					for _, n := range vals {
						guards = append(guards, tEq(x, tBV(n, sortBits(x.Sort))))
						natives = append(natives, nativeInt(n, it.T))
					}
				} else {
					guards, natives = []*Term{tTrue}, []interface{}{symPlaceholder}
				}
			default:
				guards, natives = []*Term{tTrue}, []interface{}{e.nativeDump(v, it.T)}
			}
		}
		var next []alt
		for _, a := range alts {
			for j := range guards {
				g := tAnd(a.g, guards[j])
				if g == tFalse {
					continue
				}
				next = append(next, alt{g, append(append([]interface{}{}, a.args...), natives[j])})
			}
		}
		alts = next
		if len(alts) > 4*maxUnionWidth {
			panic(outOfBound{"sprintf union too wide"})
		}
	}
	u := &UStr{}
	for _, a := range alts {
		u.Alts = append(u.Alts, UAlt{a.g, fmt.Sprintf(f, a.args...)})
	}
	return normUStr(u)
}

// enumInt lists the values an integer term can take on the current path if there are at most limit of them.
func (e *Engine) enumInt(t *Term, typ types.Type, limit int) ([]int64, bool) {
	if !strings.HasPrefix(t.Sort, "(_ BitVec") {
		return nil, false
	}
	if b, ok := typ.Underlying().(*types.Basic); !ok || b.Info()&types.IsInteger == 0 {
		return nil, false
	}
	ii, _ := intInfoOf(typ)
	var vals []int64
	e.solver.Push()
	defer e.solver.Pop()
	for len(vals) <= limit {
		if e.solver.Check() != "sat" {
			return vals, len(vals) > 0
		}
		raw := e.solver.Values([]string{t.S})
		n, ok := modelInt(raw[0])
		if !ok {
			return nil, false
		}
		n = normInt(n, ii)
		vals = append(vals, n)
		e.solver.Assert(tNot(tEq(t, tBV(n, sortBits(t.Sort)))))
	}
	return nil, false
}

func isBasicNonString(t types.Type) bool {
	_, ok := t.(*types.Basic)
	return ok
}

func isStringerSig(sel *types.Selection) bool {
	sig, ok := sel.Type().(*types.Signature)
	return ok && sig.Params().Len() == 0 && sig.Results().Len() == 1 && isStringType(sig.Results().At(0).Type())
}

func nativeInt(x int64, t types.Type) interface{} {
	if ii, ok := intInfoOf(t); ok && ii.unsigned {
		return uint64(x)
	}
	return x
}

// nativeDump renders composite operands of %v roughly like fmt would; such strings
// only ever end up in error messages and trails.
func (e *Engine) nativeDump(v Value, t types.Type) interface{} {
	switch x := v.(type) {
	case Slice:
		var parts []string
		for _, el := range sliceElems(x) {
			switch s := el.(type) {
			case string:
				parts = append(parts, s)
			case int64:
				parts = append(parts, fmt.Sprint(s))
			default:
				parts = append(parts, symPlaceholder)
			}
		}
		return "[" + strings.Join(parts, " ") + "]"
	case Pointer:
		if x.O == nil {
			return "<nil>"
		}
		return "0xc000000000"
	}
	return symPlaceholder
}

// ---------------------------------------------------------------- generic lifting of pure functions

type lifted struct {
	g   *Term
	res []interface{}
}

// liftPure enumerates every combination of alternatives of the (union) string
// arguments, runs f natively on each and merges the results: strings into
// unions, bools into terms; integers and slices fork when they differ in shape.
// Supported concrete argument kinds: string, int64, bool, []string.
func (e *Engine) liftPure(args []Value, f func(c []interface{}) []interface{}) Value {
	type choice struct {
		g *Term
		v interface{}
	}
	var dims [][]choice
	for _, a := range args {
		switch x := a.(type) {
		case string:
			dims = append(dims, []choice{{tTrue, x}})
		case int64:
			dims = append(dims, []choice{{tTrue, x}})
		case bool:
			dims = append(dims, []choice{{tTrue, x}})
		case *UStr:
			var cs []choice
			for _, al := range x.Alts {
				cs = append(cs, choice{al.G, al.S})
			}
			dims = append(dims, cs)
		case Slice:
			// []string, possibly with union elements: product over the elements
			cur := []choice{{tTrue, []string{}}}
			for _, el := range sliceElems(x) {
				var nxt []choice
				for _, c := range cur {
					for _, al := range asUStr(el).Alts {
						g := tAnd(c.g, al.G)
						if g == tFalse {
							continue
						}
						nxt = append(nxt, choice{g, append(append([]string{}, c.v.([]string)...), al.S)})
					}
				}
				cur = nxt
				if len(cur) > 4*maxUnionWidth {
					panic(outOfBound{"lifted slice argument too wide"})
				}
			}
			dims = append(dims, cur)
		case *Term:
			panic(abort{"pure string function on symbolic non-union operand (" + x.Sort + ")"})
		default:
			panic(abort{fmt.Sprintf("liftPure: unsupported argument %T", a)})
		}
	}
	combos := []lifted{{tTrue, nil}}
	for _, d := range dims {
		var nxt []lifted
		for _, c := range combos {
			for _, ch := range d {
				g := tAnd(c.g, ch.g)
				if g == tFalse {
					continue
				}
				nxt = append(nxt, lifted{g, append(append([]interface{}{}, c.res...), ch.v)})
			}
		}
		combos = nxt
		if len(combos) > 8*maxUnionWidth {
			panic(outOfBound{"lifted call too wide"})
		}
	}
	for i := range combos {
		combos[i].res = f(combos[i].res)
	}
	return e.mergeLifted(combos)
}

func shapeKey(res []interface{}) string {
	var sb strings.Builder
	for _, r := range res {
		switch x := r.(type) {
		case string:
			sb.WriteString("s;")
		case bool:
			sb.WriteString("b;")
		case int64:
			fmt.Fprintf(&sb, "i%d;", x)
		case float64:
			fmt.Fprintf(&sb, "f%x;", x)
		case []string:
			fmt.Fprintf(&sb, "l%d;", len(x))
		case nil:
			sb.WriteString("n;")
		case error:
			sb.WriteString("e:" + x.Error() + ";")
		default:
			fmt.Fprintf(&sb, "?%v;", x)
		}
	}
	return sb.String()
}

func (e *Engine) mergeLifted(combos []lifted) Value {
	if len(combos) == 0 {
		panic(pathEnd{})
	}
	groups := map[string][]lifted{}
	var order []string
	for _, c := range combos {
		k := shapeKey(c.res)
		if _, ok := groups[k]; !ok {
			order = append(order, k)
		}
		groups[k] = append(groups[k], c)
	}
	grp := groups[order[0]]
	if len(order) > 1 {
		opts := make([]*Term, len(order))
		for i, k := range order {
			g := tFalse
			for _, c := range groups[k] {
				g = tOr(g, c.g)
			}
			opts[i] = g
		}
		grp = groups[order[e.choose(opts)]]
	}
	n := len(grp[0].res)
	out := make([]Value, n)
	for i := 0; i < n; i++ {
		switch x := grp[0].res[i].(type) {
		case string:
			u := &UStr{}
			for _, c := range grp {
				u.Alts = append(u.Alts, UAlt{c.g, c.res[i].(string)})
			}
			if len(grp) == 1 {
				out[i] = x
			} else {
				out[i] = normUStr(u)
			}
		case bool:
			if len(grp) == 1 {
				out[i] = x
				break
			}
			all, none := true, true
			t := tFalse
			for _, c := range grp {
				if c.res[i].(bool) {
					t = tOr(t, c.g)
					none = false
				} else {
					all = false
				}
			}
			switch {
			case all:
				out[i] = true
			case none:
				out[i] = false
			default:
				out[i] = boolVal(t)
			}
		case int64:
			out[i] = x
		case float64:
			out[i] = x
		case []string:
			elems := make([]Value, len(x))
			for j := range x {
				u := &UStr{}
				for _, c := range grp {
					u.Alts = append(u.Alts, UAlt{c.g, c.res[i].([]string)[j]})
				}
				if len(grp) == 1 {
					elems[j] = x[j]
				} else {
					elems[j] = normUStr(u)
				}
			}
			if x == nil {
				out[i] = Slice{}
			} else {
				out[i] = e.sliceOf(elems)
			}
		case nil:
			out[i] = Iface{}
		case error:
			out[i] = e.newErr(x.Error(), nil, false)
		default:
			panic(abort{"mergeLifted: unsupported result"})
		}
	}
	if n == 1 {
		return out[0]
	}
	return &Agg{F: out}
}

type strIntrinsic func(e *Engine, args []Value) Value

func s1(f func(string) string) strIntrinsic {
	return func(e *Engine, a []Value) Value {
		return e.liftPure(a, func(c []interface{}) []interface{} { return []interface{}{f(c[0].(string))} })
	}
}
func s2(f func(a, b string) string) strIntrinsic {
	return func(e *Engine, a []Value) Value {
		return e.liftPure(a, func(c []interface{}) []interface{} { return []interface{}{f(c[0].(string), c[1].(string))} })
	}
}
func p2(f func(a, b string) bool) strIntrinsic {
	return func(e *Engine, a []Value) Value {
		return e.liftPure(a, func(c []interface{}) []interface{} { return []interface{}{f(c[0].(string), c[1].(string))} })
	}
}
func i2(f func(a, b string) int) strIntrinsic {
	return func(e *Engine, a []Value) Value {
		return e.liftPure(a, func(c []interface{}) []interface{} { return []interface{}{int64(f(c[0].(string), c[1].(string)))} })
	}
}

func errOrNil(err error) interface{} {
	if err == nil {
		return nil
	}
	return err
}

var stringIntrinsics map[string]strIntrinsic

func init() {
	stringIntrinsics = map[string]strIntrinsic{
		"strings.ToLower":     s1(strings.ToLower),
		"strings.ToUpper":     s1(strings.ToUpper),
		"strings.TrimSpace":   s1(strings.TrimSpace),
		"strings.Title":       s1(strings.Title),
		"strings.EqualFold":   p2(strings.EqualFold),
		"strings.HasPrefix":   p2(strings.HasPrefix),
		"strings.HasSuffix":   p2(strings.HasSuffix),
		"strings.Contains":    p2(strings.Contains),
		"strings.ContainsAny": p2(strings.ContainsAny),
		"strings.TrimPrefix":  s2(strings.TrimPrefix),
		"strings.TrimSuffix":  s2(strings.TrimSuffix),
		"strings.TrimLeft":    s2(strings.TrimLeft),
		"strings.TrimRight":   s2(strings.TrimRight),
		"strings.Trim":        s2(strings.Trim),
		"strings.Index":       i2(strings.Index),
		"strings.LastIndex":   i2(strings.LastIndex),
		"strings.Count":       i2(strings.Count),
		"strings.Compare":     i2(strings.Compare),
		"strings.ReplaceAll": func(e *Engine, a []Value) Value {
			return e.liftPure(a, func(c []interface{}) []interface{} {
				r := strings.ReplaceAll(c[0].(string), c[1].(string), c[2].(string))
				if len(r) > 2048 {
					// a string that keeps growing inside a loop: count it against the unwinding bound before it exhausts memory
					panic(outOfBound{"step budget exceeded (a string grew beyond 2 KiB)"})
				}
				return []interface{}{r}
			})
		},
		"strings.Replace": func(e *Engine, a []Value) Value {
			return e.liftPure(a, func(c []interface{}) []interface{} {
				return []interface{}{strings.Replace(c[0].(string), c[1].(string), c[2].(string), int(c[3].(int64)))}
			})
		},
		"strings.Repeat": func(e *Engine, a []Value) Value {
			return e.liftPure(a, func(c []interface{}) []interface{} {
				n := int(c[1].(int64))
				if n < 0 {
					panic(goPanic{msg: "strings: negative Repeat count"})
				}
				return []interface{}{strings.Repeat(c[0].(string), n)}
			})
		},
		"strings.Split": func(e *Engine, a []Value) Value {
			return e.liftPure(a, func(c []interface{}) []interface{} {
				return []interface{}{strings.Split(c[0].(string), c[1].(string))}
			})
		},
		"strings.SplitN": func(e *Engine, a []Value) Value {
			return e.liftPure(a, func(c []interface{}) []interface{} {
				return []interface{}{strings.SplitN(c[0].(string), c[1].(string), int(c[2].(int64)))}
			})
		},
		"strings.Fields": func(e *Engine, a []Value) Value {
			return e.liftPure(a, func(c []interface{}) []interface{} {
				return []interface{}{strings.Fields(c[0].(string))}
			})
		},
		"strings.Join": func(e *Engine, a []Value) Value {
			return e.liftPure(a, func(c []interface{}) []interface{} {
				return []interface{}{strings.Join(c[0].([]string), c[1].(string))}
			})
		},
		"strings.Cut": func(e *Engine, a []Value) Value {
			return e.liftPure(a, func(c []interface{}) []interface{} {
				b, af, ok := strings.Cut(c[0].(string), c[1].(string))
				return []interface{}{b, af, ok}
			})
		},
		"strconv.Itoa": func(e *Engine, a []Value) Value {
			if _, ok := a[0].(*Term); ok {
				return symPlaceholder
			}
			return strconv.Itoa(int(a[0].(int64)))
		},
		"strconv.FormatInt": func(e *Engine, a []Value) Value {
			if _, ok := a[0].(*Term); ok {
				return symPlaceholder
			}
			return strconv.FormatInt(a[0].(int64), int(a[1].(int64)))
		},
		"strconv.Quote": s1(strconv.Quote),
		"strconv.Atoi": func(e *Engine, a []Value) Value {
			return e.liftPure(a, func(c []interface{}) []interface{} {
				n, err := strconv.Atoi(c[0].(string))
				return []interface{}{int64(n), errOrNil(err)}
			})
		},
		"strconv.ParseBool": func(e *Engine, a []Value) Value {
			return e.liftPure(a, func(c []interface{}) []interface{} {
				b, err := strconv.ParseBool(c[0].(string))
				return []interface{}{b, errOrNil(err)}
			})
		},
		"strconv.ParseInt": func(e *Engine, a []Value) Value {
			return e.liftPure(a, func(c []interface{}) []interface{} {
				n, err := strconv.ParseInt(c[0].(string), int(c[1].(int64)), int(c[2].(int64)))
				return []interface{}{n, errOrNil(err)}
			})
		},
		"strconv.ParseFloat": func(e *Engine, a []Value) Value {
			return e.liftPure(a, func(c []interface{}) []interface{} {
				f, err := strconv.ParseFloat(c[0].(string), int(c[1].(int64)))
				return []interface{}{f, errOrNil(err)}
			})
		},
		"(encoding/json.Number).Int64": func(e *Engine, a []Value) Value {
			return e.liftPure(a, func(c []interface{}) []interface{} {
				n, err := strconv.ParseInt(c[0].(string), 10, 64)
				return []interface{}{n, errOrNil(err)}
			})
		},
		"(encoding/json.Number).Float64": func(e *Engine, a []Value) Value {
			return e.liftPure(a, func(c []interface{}) []interface{} {
				f, err := strconv.ParseFloat(c[0].(string), 64)
				return []interface{}{f, errOrNil(err)}
			})
		},
		"(encoding/json.Number).String": func(e *Engine, a []Value) Value { return a[0] },
		"path/filepath.Base": s1(func(s string) string { return s[strings.LastIndex(s, "/")+1:] }),
	}
}

// ---------------------------------------------------------------- deep equality

type deepOpts struct {
	useEqualMethod bool // go-cmp: honour an Equal method
	nilIsEmpty     bool // nil slice/map ≡ empty slice/map
}

type visitKey struct{ a, b interface{} }

// deepEqual is reflect.DeepEqual over engine values; leaves compare symbolically.
func (e *Engine) deepEqual(a, b Value, o deepOpts) *Term {
	return e.deepEq(a, b, o, map[visitKey]bool{}, 0)
}

func (e *Engine) deepEq(a, b Value, o deepOpts, seen map[visitKey]bool, depth int) *Term {
	if depth > 60 {
		panic(outOfBound{"deep equality nesting bound"})
	}
	switch x := a.(type) {
	case Iface:
		y, ok := b.(Iface)
		if !ok {
			return tFalse
		}
		if x.T == nil || y.T == nil {
			return tBool(x.T == nil && y.T == nil)
		}
		if !types.Identical(x.T, y.T) {
			return tFalse
		}
		if o.useEqualMethod {
			if sel := e.prog.MethodSets.MethodSet(x.T).Lookup(nil, "Equal"); sel != nil {
				sig := sel.Type().(*types.Signature)
				if sig.Params().Len() == 1 && types.Identical(sig.Params().At(0).Type(), x.T) {
					return asBoolTerm(e.callFn(e.prog.MethodValue(sel), []Value{x.V, y.V}, nil))
				}
			}
		}
		return e.deepEq(x.V, y.V, o, seen, depth+1)
	case *Agg:
		y, ok := b.(*Agg)
		if !ok || len(x.F) != len(y.F) {
			return tFalse
		}
		r := tTrue
		for i := range x.F {
			r = tAnd(r, e.deepEq(x.F[i], y.F[i], o, seen, depth+1))
			if r == tFalse {
				return r
			}
		}
		return r
	case Pointer:
		y, ok := b.(Pointer)
		if !ok {
			return tFalse
		}
		if x.O == nil || y.O == nil {
			return tBool(x.O == nil && y.O == nil)
		}
		if x.O == y.O && samePath(x.Path, y.Path) {
			return tTrue
		}
		k := visitKey{fmt.Sprint(x.O.ID, x.Path), fmt.Sprint(y.O.ID, y.Path)}
		if seen[k] {
			return tTrue
		}
		seen[k] = true
		return e.deepEq(navigate(x.O.Val, x.Path), navigate(y.O.Val, y.Path), o, seen, depth+1)
	case Slice:
		y, ok := b.(Slice)
		if !ok {
			return tFalse
		}
		if (x.O == nil) != (y.O == nil) && !(o.nilIsEmpty && x.Len == 0 && y.Len == 0) {
			return tFalse
		}
		if x.Len != y.Len {
			return tFalse
		}
		r := tTrue
		xs, ys := sliceElems(x), sliceElems(y)
		for i := range xs {
			r = tAnd(r, e.deepEq(xs[i], ys[i], o, seen, depth+1))
			if r == tFalse {
				return r
			}
		}
		return r
	case *MapV:
		y, ok := b.(*MapV)
		if !ok {
			return tFalse
		}
		xl, yl := 0, 0
		if x != nil {
			xl = len(x.Entries)
		}
		if y != nil {
			yl = len(y.Entries)
		}
		if (x == nil) != (y == nil) && !(o.nilIsEmpty && xl == 0 && yl == 0) {
			return tFalse
		}
		if xl != yl {
			return tFalse
		}
		if x == y || xl == 0 {
			return tTrue
		}
		r := tTrue
		for _, ex := range x.Entries {
			any := tFalse
			for _, ey := range y.Entries {
				any = tOr(any, tAnd(asBoolTerm(e.eqVal(ex.K, ey.K)), e.deepEq(ex.V, ey.V, o, seen, depth+1)))
			}
			r = tAnd(r, any)
			if r == tFalse {
				return r
			}
		}
		return r
	case *Closure:
		y, ok := b.(*Closure)
		return tBool(ok && x == nil && y == nil)
	case *ssa.Function:
		return tFalse
	case *ErrV:
		y, ok := b.(*ErrV)
		if !ok {
			return tFalse
		}
		if x == y {
			return tTrue
		}
		return asBoolTerm(e.eqVal(e.errMsg(x), e.errMsg(y)))
	case nil:
		return tBool(b == nil)
	case *AbsSeq:
		panic(abort{"deep equality on abstract sequence"})
	}
	if b == nil {
		return tFalse
	}
	// float NaN: reflect.DeepEqual(NaN, NaN) is false, same as ==
	return asBoolTerm(e.eqVal(a, b))
}

// ---------------------------------------------------------------- heap reach

type reach struct {
	objs map[*Obj]bool
	maps map[*MapV]bool
	// viaIface: the object was only reached through an interface value (an `any` payload)
	objVia map[*Obj]bool
	mapVia map[*MapV]bool
}

func newReach() *reach {
	return &reach{map[*Obj]bool{}, map[*MapV]bool{}, map[*Obj]bool{}, map[*MapV]bool{}}
}

// collect gathers every mutable heap object reachable from v: pointees, non-empty
// slice backings and maps.
func (r *reach) collect(v Value) { r.collectVia(v, false) }

func (r *reach) collectVia(v Value, via bool) {
	switch x := v.(type) {
	case *Agg:
		for _, f := range x.F {
			r.collectVia(f, via)
		}
	case Pointer:
		if x.O != nil && (!r.objs[x.O] || (r.objVia[x.O] && !via)) {
			r.objs[x.O] = true
			r.objVia[x.O] = via
			r.collectVia(x.O.Val, via)
		}
	case Slice:
		if x.O != nil && x.Cap > 0 && (!r.objs[x.O] || (r.objVia[x.O] && !via)) {
			r.objs[x.O] = true
			r.objVia[x.O] = via
			r.collectVia(x.O.Val, via)
		}
	case *MapV:
		if x != nil && (!r.maps[x] || (r.mapVia[x] && !via)) {
			r.maps[x] = true
			r.mapVia[x] = via
			for _, en := range x.Entries {
				r.collectVia(en.K, via)
				r.collectVia(en.V, via)
			}
		}
	case Iface:
		r.collectVia(x.V, true)
	case *Closure:
		if x != nil {
			for _, b := range x.Env {
				r.collectVia(b, via)
			}
		}
	case *ErrV:
		for _, w := range x.Wrapped {
			r.collectVia(w, via)
		}
	}
}

func (e *Engine) freeze(v Value, on bool) {
	r := newReach()
	r.collect(v)
	for o := range r.objs {
		o.Frozen = on
	}
	for m := range r.maps {
		m.Frozen = on
	}
}

// sharedHeap classifies the mutable heap shared by a and b: "" (disjoint),
// "payload" (only objects held inside interface values, i.e. `any` payloads) or
// "structure" (a pointee, slice backing or map reached through declared fields).
func (e *Engine) sharedHeap(a, b Value) string {
	// the arguments themselves arrive boxed in `any`: unwrap one level
	if it, ok := a.(Iface); ok {
		a = it.V
	}
	if it, ok := b.(Iface); ok {
		b = it.V
	}
	ra, rb := newReach(), newReach()
	ra.collect(a)
	rb.collect(b)
	res := ""
	for o := range ra.objs {
		if rb.objs[o] {
			if ra.objVia[o] && rb.objVia[o] {
				if res == "" {
					res = "payload"
				}
			} else {
				res = "structure"
			}
		}
	}
	for m := range ra.maps {
		if rb.maps[m] {
			if ra.mapVia[m] && rb.mapVia[m] {
				if res == "" {
					res = "payload"
				}
			} else {
				res = "structure"
			}
		}
	}
	return res
}

// mapKeySetsDiffer: walking a and b in parallel, some pair of corresponding maps of
// equal length has different key sets (the excuse predicate of a known finding).
func (e *Engine) mapKeySetsDiffer(a, b Value, depth int) *Term {
	if depth > 40 {
		return tFalse
	}
	switch x := a.(type) {
	case Iface:
		y, ok := b.(Iface)
		if !ok || x.T == nil || y.T == nil {
			return tFalse
		}
		return e.mapKeySetsDiffer(x.V, y.V, depth+1)
	case *Agg:
		y, ok := b.(*Agg)
		if !ok || len(x.F) != len(y.F) {
			return tFalse
		}
		r := tFalse
		for i := range x.F {
			r = tOr(r, e.mapKeySetsDiffer(x.F[i], y.F[i], depth+1))
		}
		return r
	case Pointer:
		y, ok := b.(Pointer)
		if !ok || x.O == nil || y.O == nil {
			return tFalse
		}
		return e.mapKeySetsDiffer(navigate(x.O.Val, x.Path), navigate(y.O.Val, y.Path), depth+1)
	case Slice:
		y, ok := b.(Slice)
		if !ok || x.Len != y.Len {
			return tFalse
		}
		r := tFalse
		xs, ys := sliceElems(x), sliceElems(y)
		for i := range xs {
			r = tOr(r, e.mapKeySetsDiffer(xs[i], ys[i], depth+1))
		}
		return r
	case *MapV:
		y, ok := b.(*MapV)
		if !ok || x == nil || y == nil || len(x.Entries) != len(y.Entries) {
			return tFalse
		}
		r := tFalse
		for _, ex := range x.Entries {
			found := tFalse
			for _, ey := range y.Entries {
				same := asBoolTerm(e.eqVal(ex.K, ey.K))
				found = tOr(found, same)
				// nested maps under equal keys
				r = tOr(r, tAnd(same, e.mapKeySetsDiffer(ex.V, ey.V, depth+1)))
			}
			r = tOr(r, tNot(found))
		}
		return r
	}
	return tFalse
}

// ---------------------------------------------------------------- native values (regexp)

// NativeVal wraps a native Go value the engine cannot interpret (a compiled regexp):
// only the methods listed below are given meaning, each run natively on concrete or
// finite-union string operands.
type NativeVal struct{ V interface{} }

func nativeRegexp(v Value) *regexp.Regexp {
	p, ok := v.(Pointer)
	if !ok || p.O == nil {
		panic(goPanic{msg: "nil pointer dereference"})
	}
	nv, ok := p.O.Val.(*NativeVal)
	if !ok {
		panic(abort{"regexp method on a value the engine did not create"})
	}
	return nv.V.(*regexp.Regexp)
}

func (e *Engine) regexpIntrinsic(name string, args []Value) (Value, bool) {
	switch name {
	case "regexp.MustCompile", "regexp.Compile":
		pat := e.concreteStr(args[0])
		re, err := regexp.Compile(pat)
		if err != nil {
			if name == "regexp.MustCompile" {
				panic(goPanic{msg: "regexp: Compile(" + pat + "): " + err.Error()})
			}
			return &Agg{F: []Value{Pointer{}, e.newErr(err.Error(), nil, false)}}, true
		}
		p := Pointer{O: e.newObj(&NativeVal{re}, "regexp")}
		if name == "regexp.Compile" {
			return &Agg{F: []Value{p, Iface{}}}, true
		}
		return p, true
	case "(*regexp.Regexp).FindStringSubmatch":
		re := nativeRegexp(args[0])
		return e.liftPure(args[1:], func(c []interface{}) []interface{} { return []interface{}{re.FindStringSubmatch(c[0].(string))} }), true
	case "(*regexp.Regexp).MatchString":
		re := nativeRegexp(args[0])
		return e.liftPure(args[1:], func(c []interface{}) []interface{} { return []interface{}{re.MatchString(c[0].(string))} }), true
	case "(*regexp.Regexp).ReplaceAllString":
		re := nativeRegexp(args[0])
		return e.liftPure(args[1:], func(c []interface{}) []interface{} {
			return []interface{}{re.ReplaceAllString(c[0].(string), c[1].(string))}
		}), true
	case "(*regexp.Regexp).String":
		return nativeRegexp(args[0]).String(), true
	}
	return nil, false
}

// ---------------------------------------------------------------- a minimal reflect model

// ReflectVal is the engine's reflect.Value: a handle on an interface value. Only
// ValueOf / IsValid / IsZero / IsNil / Kind / Len / Interface are given meaning.
type ReflectVal struct{ it Iface }

func (e *Engine) reflectIntrinsic(name string, args []Value) (Value, bool) {
	switch name {
	case "reflect.ValueOf":
		it, _ := args[0].(Iface)
		return &ReflectVal{it}, true
	case "(reflect.Value).IsValid":
		return args[0].(*ReflectVal).it.T != nil, true
	case "(reflect.Value).Interface":
		return args[0].(*ReflectVal).it, true
	case "(reflect.Value).IsZero":
		rv := args[0].(*ReflectVal)
		if rv.it.T == nil {
			panic(goPanic{msg: "reflect: call of reflect.Value.IsZero on zero Value"})
		}
		return boolVal(e.deepEqual(rv.it.V, zero(rv.it.T), deepOpts{})), true
	case "(reflect.Value).IsNil":
		rv := args[0].(*ReflectVal)
		switch x := rv.it.V.(type) {
		case Pointer:
			return x.O == nil, true
		case Slice:
			return x.O == nil, true
		case *MapV:
			return x == nil, true
		case *Closure:
			return x == nil, true
		case Iface:
			return x.T == nil, true
		}
		panic(goPanic{msg: "reflect: call of reflect.Value.IsNil on a non-nillable value"})
	case "(reflect.Value).Len":
		rv := args[0].(*ReflectVal)
		switch x := rv.it.V.(type) {
		case Slice:
			return int64(x.Len), true
		case *MapV:
			if x == nil {
				return int64(0), true
			}
			return int64(len(x.Entries)), true
		case string:
			return int64(len(x)), true
		case *Agg:
			return int64(len(x.F)), true
		}
		panic(abort{"reflect.Value.Len on unsupported value"})
	case "(reflect.Value).Kind":
		rv := args[0].(*ReflectVal)
		if rv.it.T == nil {
			return int64(0), true
		}
		return int64(reflectKind(rv.it.T)), true
	case "reflect.TypeOf":
		panic(abort{"reflect.TypeOf"})
	}
	return nil, false
}

func reflectKind(t types.Type) int {
	switch u := t.Underlying().(type) {
	case *types.Basic:
		switch u.Kind() {
		case types.Bool:
			return 1
		case types.Int:
			return 2
		case types.Int8:
			return 3
		case types.Int16:
			return 4
		case types.Int32:
			return 5
		case types.Int64:
			return 6
		case types.Uint:
			return 7
		case types.Uint8:
			return 8
		case types.Uint16:
			return 9
		case types.Uint32:
			return 10
		case types.Uint64:
			return 11
		case types.Uintptr:
			return 12
		case types.Float32:
			return 13
		case types.Float64:
			return 14
		case types.String:
			return 24
		case types.UnsafePointer:
			return 26
		}
	case *types.Array:
		return 17
	case *types.Chan:
		return 18
	case *types.Signature:
		return 19
	case *types.Interface:
		return 20
	case *types.Map:
		return 21
	case *types.Pointer:
		return 22
	case *types.Slice:
		return 23
	case *types.Struct:
		return 25
	}
	return 0
}
