package main

import (
	"fmt"
	"go/constant"
	"go/token"
	"go/types"
	"math"
	"strings"
	"sync"
	"time"
	"unicode/utf8"

	"golang.org/x/tools/go/ssa"
)

type abort struct{ why string }      // path cannot be continued by the engine (unsupported construct)
type outOfBound struct{ why string } // a stated bound (recursion, steps, union width) was hit
type goPanic struct {                // the program under test panics
	msg   string
	stack []*ssa.Function // call stack at the point of the panic (filled when the stack is unwound)
}
type frozenWrite struct{ msg string } // write into an object frozen by the harness
type pathEnd struct{}                 // assume(false), or end after a fatal assertion

// AbsSeq is the result of []rune(s) / []byte(s) on an abstract string: only len() is supported.
type AbsSeq struct{ Len *Term }

type funcInfo struct {
	index map[ssa.Value]int
	n     int
}

var funcInfos sync.Map // *ssa.Function -> *funcInfo

func infoOf(fn *ssa.Function) *funcInfo {
	if fi, ok := funcInfos.Load(fn); ok {
		return fi.(*funcInfo)
	}
	fi := &funcInfo{index: map[ssa.Value]int{}}
	add := func(v ssa.Value) {
		fi.index[v] = fi.n
		fi.n++
	}
	for _, p := range fn.Params {
		add(p)
	}
	for _, fv := range fn.FreeVars {
		add(fv)
	}
	for _, b := range fn.Blocks {
		for _, ins := range b.Instrs {
			if v, ok := ins.(ssa.Value); ok {
				add(v)
			}
		}
	}
	act, _ := funcInfos.LoadOrStore(fn, fi)
	return act.(*funcInfo)
}

type frame struct {
	fn     *ssa.Function
	info   *funcInfo
	locals []Value
	set    []bool
	defers []func()
	// panicking is set while deferred calls run because of a panic (for recover()).
	panicking *goPanic
}

type Draw struct {
	Kind string   `json:"kind"` // choose | bool | int | str | astr | float | order
	Name string   `json:"name"`
	Var  string   `json:"-"`
	Alts []string `json:"alts,omitempty"`
	Bits int      `json:"bits,omitempty"`
	// concrete value (filled at once for choose, from the model otherwise)
	Val interface{} `json:"val"`
}

type Engine struct {
	sh     *Shared
	prog   *ssa.Program
	solver *Solver

	globals map[*ssa.Global]*Obj
	nextID  int

	// path state
	prefix    []int
	depth     int
	newWork   [][]int
	draws     []*Draw
	nsym      int
	steps     int
	stack     []*ssa.Function
	observed  []string
	symOrder  bool
	bufText   map[*Obj]*JSONText // bytes.Buffers that hold JSON text segments (jsonstream.go)
	yamlNodes    map[*Obj]*Agg    // *yaml.Node objects handed to custom unmarshalers -> document node
	yamlTypeErrs map[int][]string // ErrV ids that are yaml.TypeError values (collected, not fatal)
	tempFiles    map[string]*Agg  // files created by zzverif.TempFile -> document
	excuses   map[string]*Term
	strLits   map[string]*Term
	strTerms  []*Term
	deferring []*frame
	entryName string

	kb          map[string]bool
	funcs       map[*ssa.Function]int
	counters    map[string]int
	initRunning map[*ssa.Package]bool
	inInit      int
	initTarget  *ssa.Function
	deadline    time.Time
}

func (fr *frame) put(v ssa.Value, x Value) {
	i := fr.info.index[v]
	fr.locals[i] = x
	fr.set[i] = true
}

func (e *Engine) newObj(v Value, tag string) *Obj {
	e.nextID++
	return &Obj{ID: e.nextID, Val: v, Tag: tag}
}

// ---- facts already established on the current path (cheap three-valued evaluator)

// learn records that t has the given truth value on this path.
func (e *Engine) learn(t *Term, val bool) {
	if t == tTrue || t == tFalse {
		return
	}
	switch t.Op {
	case "not":
		e.learn(t.Kids[0], !val)
		return
	case "and":
		if val {
			e.learn(t.Kids[0], true)
			e.learn(t.Kids[1], true)
		}
	case "or":
		if !val {
			e.learn(t.Kids[0], false)
			e.learn(t.Kids[1], false)
		}
	}
	e.kb[t.S] = val
}

// evalKB returns 1 (implied true), 0 (implied false) or -1 (unknown) from recorded facts only.
func (e *Engine) evalKB(t *Term) int {
	if t == tTrue {
		return 1
	}
	if t == tFalse {
		return 0
	}
	if v, ok := e.kb[t.S]; ok {
		if v {
			return 1
		}
		return 0
	}
	switch t.Op {
	case "not":
		if r := e.evalKB(t.Kids[0]); r >= 0 {
			return 1 - r
		}
	case "and":
		a, b := e.evalKB(t.Kids[0]), e.evalKB(t.Kids[1])
		if a == 0 || b == 0 {
			return 0
		}
		if a == 1 && b == 1 {
			return 1
		}
	case "or":
		a, b := e.evalKB(t.Kids[0]), e.evalKB(t.Kids[1])
		if a == 1 || b == 1 {
			return 1
		}
		if a == 0 && b == 0 {
			return 0
		}
	}
	return -1
}

func (e *Engine) assertPC(t *Term) {
	e.solver.Assert(t)
	e.learn(t, true)
}

// choose implements forking by re-execution. opts[i] is the path-condition increment
// of option i. exclusive: the options are mutually exclusive and exhaustive under
// the path condition (branches, union alternatives), which lets the engine skip
// queries whose answer follows.
func (e *Engine) choose(opts []*Term) int { return e.chooseX(opts, false) }

func (e *Engine) chooseX(opts []*Term, exclusive bool) int {
	if e.depth < len(e.prefix) {
		c := e.prefix[e.depth]
		e.depth++
		if c >= len(opts) {
			panic(abort{"nondeterministic re-execution (prefix out of range)"})
		}
		e.assertPC(opts[c])
		return c
	}
	var feas []int
	decided := false
	for i, o := range opts {
		if o == tFalse {
			continue
		}
		if o == tTrue {
			feas = append(feas, i)
			continue
		}
		switch e.evalKB(o) {
		case 0:
			e.count("decided_by_path_facts", 1)
			continue
		case 1:
			e.count("decided_by_path_facts", 1)
			feas = append(feas, i)
			if exclusive {
				decided = true
			}
			continue
		}
		if decided {
			continue
		}
		if exclusive && i == len(opts)-1 && len(feas) == 0 {
			// every other alternative is infeasible and the path condition is satisfiable
			e.count("decided_by_exhaustion", 1)
			feas = append(feas, i)
			continue
		}
		switch e.solver.CheckWith(o) {
		case "unsat":
			e.count("infeasible", 1)
			e.learn(o, false)
		case "unknown":
			e.count("feasibility_unknown_kept", 1)
			feas = append(feas, i)
		default:
			feas = append(feas, i)
		}
	}
	if decided {
		// keep only the alternative known to hold
		var only []int
		for _, i := range feas {
			if opts[i] == tTrue || e.evalKB(opts[i]) == 1 {
				only = append(only, i)
			}
		}
		feas = only[:1]
	}
	if len(feas) == 0 {
		panic(pathEnd{})
	}
	for _, alt := range feas[1:] {
		p := append(append([]int{}, e.prefix[:e.depth]...), alt)
		e.newWork = append(e.newWork, p)
	}
	c := feas[0]
	e.prefix = append(e.prefix[:e.depth], c)
	e.depth++
	e.assertPC(opts[c])
	return c
}

func (e *Engine) chooseN(n int) int {
	opts := make([]*Term, n)
	for i := range opts {
		opts[i] = tTrue
	}
	return e.choose(opts)
}

func (e *Engine) branch(cond Value) bool {
	switch c := cond.(type) {
	case bool:
		return c
	case *Term:
		return e.chooseX([]*Term{c, tNot(c)}, true) == 0
	}
	panic(abort{fmt.Sprintf("branch on %T", cond)})
}

func (e *Engine) freshName(name string) string {
	e.nsym++
	name = strings.Map(func(r rune) rune {
		if r >= 'a' && r <= 'z' || r >= 'A' && r <= 'Z' || r >= '0' && r <= '9' || r == '_' {
			return r
		}
		return '_'
	}, name)
	return fmt.Sprintf("%s_%d", name, e.nsym)
}

func (e *Engine) freshVar(name, sort string) *Term {
	n := e.freshName(name)
	e.solver.Declare(n, sort)
	return mkTerm(n, sort)
}

// ---- abstract strings

func (e *Engine) registerStrTerm(t *Term) {
	bl := mkTerm("(bytelen "+t.S+")", bvSort(64))
	rl := mkTerm("(runelen "+t.S+")", bvSort(64))
	e.solver.Assert(tBin("bvule", rl, bl, "Bool"))
	e.solver.Assert(tBin("bvule", bl, tBin("bvshl", rl, tBV(2, 64), bvSort(64)), "Bool"))
	e.solver.Assert(tBin("bvult", bl, tBV(1<<32, 64), "Bool"))
	empty := e.strLit("")
	if t.S != empty.S {
		e.solver.Assert(mkTerm("(=> (= "+bl.S+" "+tBV(0, 64).S+") (= "+t.S+" "+empty.S+"))", "Bool"))
	}
}

func (e *Engine) strLit(s string) *Term {
	if t, ok := e.strLits[s]; ok {
		return t
	}
	n := fmt.Sprintf("strlit_%d", len(e.strLits))
	e.solver.Declare(n, "Str")
	t := mkTerm(n, "Str")
	for _, o := range e.strLits {
		e.solver.Assert(tNot(tEq(t, o)))
	}
	e.strLits[s] = t
	e.solver.Assert(tEq(mkTerm("(bytelen "+n+")", bvSort(64)), tBV(int64(len(s)), 64)))
	e.solver.Assert(tEq(mkTerm("(runelen "+n+")", bvSort(64)), tBV(int64(utf8.RuneCountInString(s)), 64)))
	return t
}

// strTerm converts any string value into a term of sort Str.
func (e *Engine) strTerm(v Value) *Term {
	switch s := v.(type) {
	case string:
		return e.strLit(s)
	case *Term:
		return s
	case *UStr:
		var t *Term
		for i := len(s.Alts) - 1; i >= 0; i-- {
			l := e.strLit(s.Alts[i].S)
			if t == nil {
				t = l
			} else {
				t = tIte(s.Alts[i].G, l, t)
			}
		}
		return t
	}
	panic(abort{fmt.Sprintf("strTerm: %T", v)})
}

// ---------------------------------------------------------------- equality

// eqVal: Go == on two values of the same static type -> bool or *Term.
func (e *Engine) eqVal(a, b Value) Value {
	if isStrTerm(a) || isStrTerm(b) {
		return boolVal(tEq(e.strTerm(a), e.strTerm(b)))
	}
	switch x := a.(type) {
	case bool:
		if y, ok := b.(bool); ok {
			return x == y
		}
		return boolVal(tEq(asBoolTerm(a), asBoolTerm(b)))
	case int64:
		if y, ok := b.(int64); ok {
			return x == y
		}
		t := b.(*Term)
		return boolVal(tEq(tBV(x, sortBits(t.Sort)), t))
	case float64:
		if y, ok := b.(float64); ok {
			return x == y
		}
		t := b.(*Term)
		if t.Sort == "F32" {
			return boolVal(tEq(tF32(float32(x)), t))
		}
		return boolVal(tEq(tF64(x), t))
	case *Term:
		switch x.Sort {
		case "Bool":
			return boolVal(tEq(x, asBoolTerm(b)))
		case "F64":
			return boolVal(tEq(x, floatTerm(b, 64)))
		case "F32":
			return boolVal(tEq(x, floatTerm(b, 32)))
		default:
			return boolVal(tEq(x, intTerm(b, sortBits(x.Sort))))
		}
	case string:
		return predStr2(a, b, func(p, q string) bool { return p == q })
	case *UStr:
		if y, ok := b.(*UStr); ok && x == y {
			return true
		}
		return predStr2(a, b, func(p, q string) bool { return p == q })
	case *Agg:
		y := b.(*Agg)
		r := tTrue
		for i := range x.F {
			r = tAnd(r, asBoolTerm(e.eqVal(x.F[i], y.F[i])))
		}
		return boolVal(r)
	case Pointer:
		y := b.(Pointer)
		return x.O == y.O && samePath(x.Path, y.Path)
	case Iface:
		y, ok := b.(Iface)
		if !ok {
			if b == nil {
				return x.T == nil
			}
			panic(abort{"interface compared with non-interface"})
		}
		if x.T == nil || y.T == nil {
			return x.T == nil && y.T == nil
		}
		if !types.Identical(x.T, y.T) {
			return false
		}
		if !types.Comparable(x.T) {
			panic(goPanic{msg: "runtime error: comparing uncomparable type " + x.T.String()})
		}
		return e.eqVal(x.V, y.V)
	case *MapV:
		y, _ := b.(*MapV)
		return x == y
	case *JSONVal:
		if y, ok := b.(Slice); ok && y.O == nil {
			return false // a document is never the nil slice
		}
		panic(abort{"comparison of JSON documents"})
	case Slice:
		if _, ok := b.(*JSONVal); ok && x.O == nil {
			return false
		}
		y := b.(Slice)
		if x.O == nil || y.O == nil { // only comparison with nil is legal
			return x.O == nil && y.O == nil
		}
		panic(abort{"slice comparison"})
	case *Closure:
		if _, isFn := b.(*ssa.Function); isFn && x == nil {
			return false
		}
		y, _ := b.(*Closure)
		if x == nil || y == nil {
			return x == nil && y == nil
		}
		panic(abort{"func comparison"})
	case *ErrV:
		return a == b
	case *ssa.Function:
		if y, ok := b.(*Closure); ok && y == nil {
			return false
		}
		if b == nil {
			return false
		}
		panic(abort{"func comparison"})
	case nil:
		if y, ok := b.(Iface); ok {
			return y.T == nil
		}
		return b == nil
	}
	panic(abort{fmt.Sprintf("eqVal: unsupported %T", a)})
}

// ---------------------------------------------------------------- calls

func (e *Engine) call(fnv Value, args []Value) Value {
	switch f := fnv.(type) {
	case *ssa.Function:
		return e.callFn(f, args, nil)
	case *Closure:
		if f == nil {
			panic(goPanic{msg: "call of nil func"})
		}
		if f.Native != nil {
			return f.Native(e, args)
		}
		return e.callFn(f.Fn, args, f.Env)
	}
	panic(abort{fmt.Sprintf("call of %T", fnv)})
}

func (e *Engine) callFn(fn *ssa.Function, args []Value, env []Value) Value {
	if e.inInit > 0 && fn.Synthetic == "package initializer" && fn != e.initTarget {
		return nil // imported packages are initialised lazily, on first access to one of their variables
	}
	if r, ok := e.intrinsic(fn, args); ok {
		return r
	}
	if fn.Blocks == nil {
		panic(abort{"external function without body: " + fn.String()})
	}
	if len(e.stack) > e.sh.cfg.MaxDepth {
		panic(outOfBound{"call depth bound exceeded in " + fn.String()})
	}
	e.noteFunc(fn)
	e.stack = append(e.stack, fn)
	fi := infoOf(fn)
	fr := &frame{fn: fn, info: fi, locals: make([]Value, fi.n), set: make([]bool, fi.n)}
	for i, p := range fn.Params {
		fr.put(p, args[i])
	}
	for i, fv := range fn.FreeVars {
		fr.put(fv, env[i])
	}
	var res Value
	if fn.Recover != nil {
		res = e.runWithRecover(fr)
	} else {
		res = e.run(fr, fn.Blocks[0])
	}
	e.stack = e.stack[:len(e.stack)-1]
	return res
}

// runWithRecover handles functions that contain a recover() call site (rare).
func (e *Engine) runWithRecover(fr *frame) (res Value) {
	stackLen := len(e.stack)
	defer func() {
		if r := recover(); r != nil {
			gp, ok := r.(goPanic)
			if !ok {
				panic(r)
			}
			if gp.stack == nil {
				gp.stack = append([]*ssa.Function{}, e.stack...)
			}
			e.stack = e.stack[:stackLen]
			// run deferred calls with the panic value available to recover()
			fr.panicking = &gp
			for i := len(fr.defers) - 1; i >= 0; i-- {
				d := fr.defers[i]
				fr.defers = fr.defers[:i]
				d()
			}
			if fr.panicking != nil {
				panic(gp)
			}
			res = e.run(fr, fr.fn.Recover)
		}
	}()
	return e.run(fr, fr.fn.Blocks[0])
}

func (e *Engine) run(fr *frame, blk *ssa.BasicBlock) Value {
	fn := fr.fn
	var prev *ssa.BasicBlock
	for {
		var next *ssa.BasicBlock
		for _, ins := range blk.Instrs {
			e.steps++
			if e.steps > e.sh.cfg.MaxSteps {
				panic(outOfBound{"step budget exceeded"})
			}
			if e.steps&0xfff == 0 && time.Now().After(e.deadline) {
				panic(outOfBound{"time budget exceeded inside a path"})
			}
			switch in := ins.(type) {
			case *ssa.Phi:
				for i, p := range blk.Preds {
					if p == prev {
						fr.put(in, e.get(fr, in.Edges[i]))
						break
					}
				}
			case *ssa.If:
				if e.branch(e.get(fr, in.Cond)) {
					next = blk.Succs[0]
				} else {
					next = blk.Succs[1]
				}
			case *ssa.Jump:
				next = blk.Succs[0]
			case *ssa.Return:
				var res Value
				switch len(in.Results) {
				case 0:
				case 1:
					res = e.get(fr, in.Results[0])
				default:
					a := &Agg{}
					for _, r := range in.Results {
						a.F = append(a.F, e.get(fr, r))
					}
					res = a
				}
				return res
			case *ssa.RunDefers:
				for i := len(fr.defers) - 1; i >= 0; i-- {
					d := fr.defers[i]
					fr.defers = fr.defers[:i]
					d()
				}
			case *ssa.Panic:
				panic(goPanic{msg: "explicit panic: " + e.panicText(e.get(fr, in.X))})
			case *ssa.Store:
				p, ok := e.get(fr, in.Addr).(Pointer)
				if !ok {
					panic(abort{"store through non-pointer"})
				}
				storePtr(p, e.get(fr, in.Val))
			case *ssa.MapUpdate:
				e.mapUpdate(e.get(fr, in.Map), e.get(fr, in.Key), e.get(fr, in.Value))
			case *ssa.Defer:
				fnv, args := e.prepareCall(fr, &in.Call)
				if b, ok := fnv.(*ssa.Builtin); ok {
					if b.Name() == "recover" {
						fr.defers = append(fr.defers, func() { fr.panicking = nil })
					} else {
						panic(abort{"deferred builtin " + b.Name()})
					}
				} else {
					cfr := fr
					fr.defers = append(fr.defers, func() {
						e.deferring = append(e.deferring, cfr)
						e.call(fnv, args)
						e.deferring = e.deferring[:len(e.deferring)-1]
					})
				}
			case *ssa.Go:
				panic(abort{"go statement"})
			case *ssa.Send:
				panic(abort{"channel send"})
			case *ssa.DebugRef:
			case ssa.Value:
				fr.put(in, e.eval(fr, in))
			default:
				panic(abort{fmt.Sprintf("unsupported instruction %T", ins)})
			}
		}
		if next == nil {
			panic(abort{"block fell through in " + fn.String()})
		}
		prev, blk = blk, next
	}
}

func (e *Engine) panicText(v Value) string {
	if it, ok := v.(Iface); ok {
		if it.T == nil {
			return "nil"
		}
		switch x := it.V.(type) {
		case string:
			return x
		case *UStr:
			return dump(x, 0)
		case *ErrV:
			return dump(x.Msg, 0)
		}
		return it.T.String()
	}
	return dump(v, 0)
}

func (e *Engine) prepareCall(fr *frame, c *ssa.CallCommon) (Value, []Value) {
	var args []Value
	if c.IsInvoke() {
		recv, ok := e.get(fr, c.Value).(Iface)
		if !ok {
			panic(abort{"invoke on non-interface value"})
		}
		if recv.T == nil {
			panic(goPanic{msg: "nil pointer dereference"})
		}
		if ev, ok := recv.V.(*ErrV); ok {
			switch c.Method.Name() {
			case "Error":
				return &Closure{Native: func(e *Engine, _ []Value) Value { return e.errMsg(ev) }}, nil
			case "Unwrap":
				return &Closure{Native: func(e *Engine, _ []Value) Value {
					if ev.Joined {
						return e.sliceOf(ev.Wrapped)
					}
					if len(ev.Wrapped) > 0 {
						return ev.Wrapped[0]
					}
					return Iface{}
				}}, nil
			}
			panic(abort{"method " + c.Method.Name() + " on engine error"})
		}
		sel := e.prog.MethodSets.MethodSet(recv.T).Lookup(c.Method.Pkg(), c.Method.Name())
		if sel == nil {
			panic(abort{"method not found: " + c.Method.Name() + " on " + recv.T.String()})
		}
		fn := e.prog.MethodValue(sel)
		if fn == nil {
			panic(abort{"abstract method " + c.Method.Name() + " on " + recv.T.String()})
		}
		args = append(args, recv.V)
		for _, a := range c.Args {
			args = append(args, e.get(fr, a))
		}
		return fn, args
	}
	for _, a := range c.Args {
		args = append(args, e.get(fr, a))
	}
	return e.get(fr, c.Value), args
}

func (e *Engine) get(fr *frame, v ssa.Value) Value {
	switch v := v.(type) {
	case *ssa.Const:
		return constVal(v)
	case *ssa.Function:
		return v
	case *ssa.Builtin:
		return v
	case *ssa.Global:
		return Pointer{O: e.globalObj(v)}
	}
	i, ok := fr.info.index[v]
	if !ok || !fr.set[i] {
		panic(abort{"undefined ssa value " + v.Name() + " in " + fr.fn.String()})
	}
	return fr.locals[i]
}

// globalObj returns the heap object of a package-level variable. The first access to
// a variable of a package of the code under test (or of the harness) runs that
// package's initialiser (variable initialisers and init functions of THAT package
// only; imported packages' initialisers are run the same way when first touched).
// Variables of other packages, and variables an initialiser could not be executed
// for, are poisoned: reading them aborts the path instead of seeing a wrong zero.
func (e *Engine) globalObj(g *ssa.Global) *Obj {
	if o, ok := e.globals[g]; ok {
		return o
	}
	pkg := g.Pkg
	if pkg != nil && pkg.Pkg.Path() == "io" && g.Name() == "EOF" {
		// the sentinel the JSON stream model returns (jsonstream.go)
		o := e.newObj(e.newErr("EOF", nil, false), "global:io.EOF")
		e.globals[g] = o
		return o
	}
	runInit := pkg != nil && (strings.HasPrefix(pkg.Pkg.Path(), underTestPrefix) || strings.Contains(pkg.Pkg.Path(), "zzverif"))
	if !runInit || e.initRunning[pkg] {
		o := e.newObj(zero(g.Type().(*types.Pointer).Elem()), "global:"+g.String())
		o.Poison = !runInit && g.Name() != "init$guard"
		e.globals[g] = o
		return o
	}
	// create every variable of the package, then run its initialiser
	if e.initRunning == nil {
		e.initRunning = map[*ssa.Package]bool{}
	}
	e.initRunning[pkg] = true
	var all []*Obj
	for _, m := range pkg.Members {
		if gv, ok := m.(*ssa.Global); ok {
			if _, ok := e.globals[gv]; !ok {
				o := e.newObj(zero(gv.Type().(*types.Pointer).Elem()), "global:"+gv.String())
				e.globals[gv] = o
				all = append(all, o)
			}
		}
	}
	if initFn := pkg.Func("init"); initFn != nil {
		ok := e.runInit(initFn)
		if !ok {
			for _, o := range all {
				if !o.Written {
					o.Poison = true
				}
			}
		}
	}
	return e.globals[g]
}

func (e *Engine) runInit(initFn *ssa.Function) (ok bool) {
	saveStack, saveSteps := len(e.stack), e.steps
	e.inInit++
	saveTarget := e.initTarget
	e.initTarget = initFn
	defer func() {
		e.inInit--
		e.initTarget = saveTarget
		if r := recover(); r != nil {
			switch r.(type) {
			case abort, outOfBound, goPanic:
				e.stack = e.stack[:saveStack]
				e.steps = saveSteps
				ok = false
			default:
				panic(r)
			}
		}
	}()
	e.callFn(initFn, nil, nil)
	return true
}

func constVal(c *ssa.Const) Value {
	if c.Value == nil {
		return zero(c.Type())
	}
	switch t := c.Type().Underlying().(type) {
	case *types.Basic:
		switch {
		case t.Info()&types.IsBoolean != 0:
			return constant.BoolVal(c.Value)
		case t.Info()&types.IsInteger != 0:
			if i, ok := constant.Int64Val(constant.ToInt(c.Value)); ok {
				return i
			}
			u, _ := constant.Uint64Val(constant.ToInt(c.Value))
			return int64(u)
		case t.Info()&types.IsFloat != 0:
			f, _ := constant.Float64Val(c.Value)
			if t.Kind() == types.Float32 {
				return float64(float32(f))
			}
			return f
		case t.Info()&types.IsString != 0:
			return constant.StringVal(c.Value)
		}
	}
	panic(abort{"const of type " + c.Type().String()})
}

// ---------------------------------------------------------------- expressions

func (e *Engine) eval(fr *frame, v ssa.Value) Value {
	switch in := v.(type) {
	case *ssa.Alloc:
		tag := in.Comment
		if tag == "" {
			tag = "alloc"
		}
		return Pointer{O: e.newObj(zero(in.Type().(*types.Pointer).Elem()), tag+"@"+fr.fn.Name())}
	case *ssa.UnOp:
		x := e.get(fr, in.X)
		switch in.Op {
		case token.MUL:
			p, ok := x.(Pointer)
			if !ok {
				panic(abort{fmt.Sprintf("load through %T", x)})
			}
			return loadPtr(p)
		case token.NOT:
			if b, ok := x.(bool); ok {
				return !b
			}
			return boolVal(tNot(x.(*Term)))
		case token.SUB:
			switch n := x.(type) {
			case int64:
				ii, _ := intInfoOf(in.Type())
				return normInt(-n, ii)
			case float64:
				return -n
			case *Term:
				if n.Sort == "F64" || n.Sort == "F32" {
					return mkTerm("(fp.neg "+n.S+")", n.Sort)
				}
				return mkTerm("(bvneg "+n.S+")", n.Sort)
			}
		case token.XOR:
			switch n := x.(type) {
			case int64:
				ii, _ := intInfoOf(in.Type())
				return normInt(^n, ii)
			case *Term:
				return mkTerm("(bvnot "+n.S+")", n.Sort)
			}
		case token.ARROW:
			panic(abort{"channel receive"})
		}
		panic(abort{"unop " + in.Op.String()})
	case *ssa.BinOp:
		return e.binop(in.Op, e.get(fr, in.X), e.get(fr, in.Y), in.X.Type(), in.Y.Type())
	case *ssa.Call:
		fnv, args := e.prepareCall(fr, &in.Call)
		if b, ok := fnv.(*ssa.Builtin); ok {
			return e.builtin(fr, b, in, args)
		}
		return e.call(fnv, args)
	case *ssa.FieldAddr:
		p, ok := e.get(fr, in.X).(Pointer)
		if !ok {
			panic(abort{"FieldAddr on non-pointer"})
		}
		if p.O == nil {
			panic(goPanic{msg: "nil pointer dereference"})
		}
		return Pointer{O: p.O, Path: append(append(make([]int, 0, len(p.Path)+1), p.Path...), in.Field)}
	case *ssa.Field:
		return copyVal(e.get(fr, in.X).(*Agg).F[in.Field])
	case *ssa.IndexAddr:
		idx := e.concreteInt(e.get(fr, in.Index))
		switch x := e.get(fr, in.X).(type) {
		case Slice:
			if idx < 0 || idx >= x.Len {
				panic(goPanic{msg: fmt.Sprintf("index out of range [%d] with length %d", idx, x.Len)})
			}
			return Pointer{O: x.O, Path: []int{x.Off + idx}}
		case Pointer: // *array
			if x.O == nil {
				panic(goPanic{msg: "nil pointer dereference"})
			}
			n := len(navigate(x.O.Val, x.Path).(*Agg).F)
			if idx < 0 || idx >= n {
				panic(goPanic{msg: fmt.Sprintf("index out of range [%d] with length %d", idx, n)})
			}
			return Pointer{O: x.O, Path: append(append([]int{}, x.Path...), idx)}
		}
		panic(abort{"IndexAddr on unexpected value"})
	case *ssa.Index:
		idx := e.concreteInt(e.get(fr, in.Index))
		switch x := e.get(fr, in.X).(type) {
		case *Agg:
			if idx < 0 || idx >= len(x.F) {
				panic(goPanic{msg: fmt.Sprintf("index out of range [%d] with length %d", idx, len(x.F))})
			}
			return copyVal(x.F[idx])
		case string:
			if idx < 0 || idx >= len(x) {
				panic(goPanic{msg: fmt.Sprintf("index out of range [%d] with length %d", idx, len(x))})
			}
			return int64(x[idx])
		case *UStr:
			s := e.concretizeStr(x)
			if idx < 0 || idx >= len(s) {
				panic(goPanic{msg: fmt.Sprintf("index out of range [%d] with length %d", idx, len(s))})
			}
			return int64(s[idx])
		}
		panic(abort{"Index on unexpected value"})
	case *ssa.Lookup:
		x := e.get(fr, in.X)
		if mt, isMap := in.X.Type().Underlying().(*types.Map); isMap {
			m, _ := x.(*MapV)
			val, found := e.mapLookup(m, e.get(fr, in.Index), mt.Elem())
			if in.CommaOk {
				return &Agg{F: []Value{val, found}}
			}
			return val
		}
		s := e.concreteStr(x)
		idx := e.concreteInt(e.get(fr, in.Index))
		if idx < 0 || idx >= len(s) {
			panic(goPanic{msg: fmt.Sprintf("index out of range [%d] with length %d", idx, len(s))})
		}
		return int64(s[idx])
	case *ssa.MakeMap:
		e.nextID++
		return &MapV{ID: e.nextID, Tag: "makemap@" + fr.fn.Name()}
	case *ssa.MakeSlice:
		n := e.concreteInt(e.get(fr, in.Len))
		c := e.concreteInt(e.get(fr, in.Cap))
		if n < 0 {
			panic(goPanic{msg: "makeslice: len out of range"})
		}
		if c < n {
			panic(goPanic{msg: "makeslice: cap out of range"})
		}
		return e.makeSlice(in.Type().Underlying().(*types.Slice).Elem(), n, c, "makeslice@"+fr.fn.Name())
	case *ssa.Slice:
		return e.sliceOp(fr, in)
	case *ssa.MakeClosure:
		c := &Closure{Fn: in.Fn.(*ssa.Function)}
		for _, b := range in.Bindings {
			c.Env = append(c.Env, e.get(fr, b))
		}
		return c
	case *ssa.MakeInterface:
		return Iface{T: in.X.Type(), V: e.get(fr, in.X)}
	case *ssa.ChangeInterface:
		return e.get(fr, in.X)
	case *ssa.ChangeType:
		return e.get(fr, in.X)
	case *ssa.Convert:
		return e.convert(e.get(fr, in.X), in.X.Type(), in.Type())
	case *ssa.MultiConvert:
		return e.convert(e.get(fr, in.X), in.X.Type(), in.Type())
	case *ssa.SliceToArrayPointer:
		panic(abort{"slice to array pointer"})
	case *ssa.Extract:
		return e.get(fr, in.Tuple).(*Agg).F[in.Index]
	case *ssa.TypeAssert:
		x, ok := e.get(fr, in.X).(Iface)
		if !ok {
			panic(abort{"type assert on non-interface"})
		}
		return e.typeAssert(in, x)
	case *ssa.Range:
		switch x := e.get(fr, in.X).(type) {
		case *MapV:
			it := &MapIter{M: x}
			if x != nil {
				it.Keys = append(it.Keys, x.Entries...)
			}
			return it
		case string:
			return &StrIter{S: x}
		case *UStr:
			return &StrIter{S: e.concretizeStr(x)}
		}
		panic(abort{"range over unexpected value"})
	case *ssa.Next:
		switch it := e.get(fr, in.Iter).(type) {
		case *MapIter:
			if it.I >= len(it.Keys) {
				return &Agg{F: []Value{false, nil, nil}}
			}
			pick := it.I
			if e.symOrder && len(it.Keys)-it.I > 1 {
				if r, ok := in.Iter.(*ssa.Range); ok && isUnderTest(fr.fn) && !isHarnessFunc(fr.fn) {
					e.count("maprange@"+e.prog.Fset.Position(r.Pos()).String(), 1)
				}
				pick = it.I + e.chooseN(len(it.Keys)-it.I)
				e.draws = append(e.draws, &Draw{Kind: "order", Name: "mapnext@" + fr.fn.Name(), Val: pick - it.I})
			}
			it.Keys[it.I], it.Keys[pick] = it.Keys[pick], it.Keys[it.I]
			en := it.Keys[it.I]
			it.I++
			return &Agg{F: []Value{true, en.K, copyVal(en.V)}}
		case *StrIter:
			if it.I >= len(it.S) {
				return &Agg{F: []Value{false, int64(0), int64(0)}}
			}
			r, sz := utf8.DecodeRuneInString(it.S[it.I:])
			k := it.I
			it.I += sz
			return &Agg{F: []Value{true, int64(k), int64(r)}}
		}
		panic(abort{"Next on unexpected iterator"})
	case *ssa.Select:
		panic(abort{"select"})
	case *ssa.MakeChan:
		return nil
	}
	panic(abort{fmt.Sprintf("unsupported value instruction %T", v)})
}

func (e *Engine) concreteInt(v Value) int {
	switch n := v.(type) {
	case int64:
		return int(n)
	case *Term:
		// case split on a small domain
		bits := sortBits(n.Sort)
		var opts []*Term
		for i := 0; i < 6; i++ {
			opts = append(opts, tEq(n, tBV(int64(i), bits)))
		}
		c := e.choose(opts)
		return c
	}
	panic(abort{fmt.Sprintf("concreteInt of %T", v)})
}

func (e *Engine) concretizeStr(u *UStr) string {
	var opts []*Term
	for _, a := range u.Alts {
		opts = append(opts, a.G)
	}
	return u.Alts[e.chooseX(opts, true)].S
}

func (e *Engine) concreteStr(v Value) string {
	switch s := v.(type) {
	case string:
		return s
	case *UStr:
		return e.concretizeStr(s)
	}
	panic(abort{fmt.Sprintf("concrete string needed, got %T", v)})
}

func (e *Engine) makeSlice(elem types.Type, n, c int, tag string) Slice {
	arr := &Agg{F: make([]Value, c)}
	for i := range arr.F {
		arr.F[i] = zero(elem)
	}
	return Slice{O: e.newObj(arr, tag), Off: 0, Len: n, Cap: c}
}

func (e *Engine) sliceOf(vals []Value) Slice {
	arr := &Agg{F: append([]Value{}, vals...)}
	return Slice{O: e.newObj(arr, "engine-slice"), Len: len(vals), Cap: len(vals)}
}

func sliceElems(s Slice) []Value {
	if s.O == nil {
		return nil
	}
	return s.O.Val.(*Agg).F[s.Off : s.Off+s.Len]
}

func (e *Engine) sliceOp(fr *frame, in *ssa.Slice) Value {
	geti := func(v ssa.Value, def int) int {
		if v == nil {
			return def
		}
		return e.concreteInt(e.get(fr, v))
	}
	switch x := e.get(fr, in.X).(type) {
	case Slice:
		lo := geti(in.Low, 0)
		hi := geti(in.High, x.Len)
		mx := geti(in.Max, x.Cap)
		if lo < 0 || hi < lo || hi > x.Cap || mx > x.Cap || mx < hi {
			panic(goPanic{msg: fmt.Sprintf("slice bounds out of range [%d:%d] with capacity %d", lo, hi, x.Cap)})
		}
		if x.O == nil {
			return Slice{}
		}
		return Slice{O: x.O, Off: x.Off + lo, Len: hi - lo, Cap: mx - lo}
	case string, *UStr:
		s := e.concreteStr(x)
		lo := geti(in.Low, 0)
		hi := geti(in.High, len(s))
		if lo < 0 || hi < lo || hi > len(s) {
			panic(goPanic{msg: fmt.Sprintf("slice bounds out of range [%d:%d] with length %d", lo, hi, len(s))})
		}
		return s[lo:hi]
	case Pointer: // *array
		if x.O == nil {
			panic(goPanic{msg: "nil pointer dereference"})
		}
		arr := navigate(x.O.Val, x.Path).(*Agg)
		if len(x.Path) != 0 {
			panic(abort{"slice of nested array"})
		}
		lo := geti(in.Low, 0)
		hi := geti(in.High, len(arr.F))
		if lo < 0 || hi < lo || hi > len(arr.F) {
			panic(goPanic{msg: fmt.Sprintf("slice bounds out of range [%d:%d] with capacity %d", lo, hi, len(arr.F))})
		}
		return Slice{O: x.O, Off: lo, Len: hi - lo, Cap: len(arr.F) - lo}
	}
	panic(abort{"slice of unexpected value"})
}

func (e *Engine) binop(op token.Token, x, y Value, xt, yt types.Type) Value {
	switch op {
	case token.EQL:
		return e.eqVal(x, y)
	case token.NEQ:
		r := e.eqVal(x, y)
		if b, ok := r.(bool); ok {
			return !b
		}
		return boolVal(tNot(r.(*Term)))
	}
	if ii, ok := intInfoOf(xt); ok {
		return e.intBinop(op, x, y, ii, yt)
	}
	if fb := floatBits(xt); fb != 0 {
		return e.floatBinop(op, x, y, fb)
	}
	if isStringType(xt) {
		if isStrTerm(x) || isStrTerm(y) {
			panic(abort{"operation " + op.String() + " on abstract string"})
		}
		switch op {
		case token.ADD:
			return liftStr2(x, y, func(p, q string) string { return p + q })
		case token.LSS:
			return predStr2(x, y, func(p, q string) bool { return p < q })
		case token.GTR:
			return predStr2(x, y, func(p, q string) bool { return p > q })
		case token.LEQ:
			return predStr2(x, y, func(p, q string) bool { return p <= q })
		case token.GEQ:
			return predStr2(x, y, func(p, q string) bool { return p >= q })
		}
	}
	if b, ok := xt.Underlying().(*types.Basic); ok && b.Info()&types.IsBoolean != 0 {
		// &, | on bools do not exist in Go SSA (only via If), but AND/OR on untyped bool consts can
		switch op {
		case token.AND, token.LAND:
			return boolVal(tAnd(asBoolTerm(x), asBoolTerm(y)))
		case token.OR, token.LOR:
			return boolVal(tOr(asBoolTerm(x), asBoolTerm(y)))
		}
	}
	panic(abort{fmt.Sprintf("binop %s on %T,%T (%s)", op, x, y, xt)})
}

func (e *Engine) intBinop(op token.Token, x, y Value, ii intInfo, yt types.Type) Value {
	a, aok := x.(int64)
	b, bok := y.(int64)
	if aok && bok {
		switch op {
		case token.ADD:
			return normInt(a+b, ii)
		case token.SUB:
			return normInt(a-b, ii)
		case token.MUL:
			return normInt(a*b, ii)
		case token.QUO:
			if b == 0 {
				panic(goPanic{msg: "integer divide by zero"})
			}
			if ii.unsigned && ii.bits == 64 {
				return int64(uint64(a) / uint64(b))
			}
			return normInt(a/b, ii)
		case token.REM:
			if b == 0 {
				panic(goPanic{msg: "integer divide by zero"})
			}
			if ii.unsigned && ii.bits == 64 {
				return int64(uint64(a) % uint64(b))
			}
			return normInt(a%b, ii)
		case token.LSS:
			if ii.unsigned && ii.bits == 64 {
				return uint64(a) < uint64(b)
			}
			return a < b
		case token.LEQ:
			if ii.unsigned && ii.bits == 64 {
				return uint64(a) <= uint64(b)
			}
			return a <= b
		case token.GTR:
			if ii.unsigned && ii.bits == 64 {
				return uint64(a) > uint64(b)
			}
			return a > b
		case token.GEQ:
			if ii.unsigned && ii.bits == 64 {
				return uint64(a) >= uint64(b)
			}
			return a >= b
		case token.AND:
			return normInt(a&b, ii)
		case token.OR:
			return normInt(a|b, ii)
		case token.XOR:
			return normInt(a^b, ii)
		case token.AND_NOT:
			return normInt(a&^b, ii)
		case token.SHL:
			if yi, _ := intInfoOf(yt); !yi.unsigned && b < 0 {
				panic(goPanic{msg: "negative shift amount"})
			}
			if uint64(b) >= 64 {
				return int64(0)
			}
			return normInt(a<<uint(b), ii)
		case token.SHR:
			if yi, _ := intInfoOf(yt); !yi.unsigned && b < 0 {
				panic(goPanic{msg: "negative shift amount"})
			}
			if ii.unsigned {
				if uint64(b) >= 64 {
					return int64(0)
				}
				if ii.bits == 64 {
					return int64(uint64(a) >> uint(b))
				}
				return normInt(a>>uint(b), ii)
			}
			if uint64(b) >= 64 {
				b = 63
			}
			return normInt(a>>uint(b), ii)
		}
		panic(abort{"int binop " + op.String()})
	}
	ta, tb := intTerm(x, ii.bits), intTerm(y, ii.bits)
	if tb.Sort != ta.Sort {
		// shift amount of another width
		panic(abort{"symbolic shift with operand of different width"})
	}
	bs := bvSort(ii.bits)
	sel := func(s, u string) string {
		if ii.unsigned {
			return u
		}
		return s
	}
	switch op {
	case token.ADD:
		return tBin("bvadd", ta, tb, bs)
	case token.SUB:
		return tBin("bvsub", ta, tb, bs)
	case token.MUL:
		return tBin("bvmul", ta, tb, bs)
	case token.AND:
		return tBin("bvand", ta, tb, bs)
	case token.OR:
		return tBin("bvor", ta, tb, bs)
	case token.XOR:
		return tBin("bvxor", ta, tb, bs)
	case token.QUO, token.REM:
		if e.branch(boolVal(tEq(tb, tBV(0, ii.bits)))) {
			panic(goPanic{msg: "integer divide by zero"})
		}
		if op == token.QUO {
			return tBin(sel("bvsdiv", "bvudiv"), ta, tb, bs)
		}
		return tBin(sel("bvsrem", "bvurem"), ta, tb, bs)
	case token.LSS:
		return boolVal(tBin(sel("bvslt", "bvult"), ta, tb, "Bool"))
	case token.LEQ:
		return boolVal(tBin(sel("bvsle", "bvule"), ta, tb, "Bool"))
	case token.GTR:
		return boolVal(tBin(sel("bvsgt", "bvugt"), ta, tb, "Bool"))
	case token.GEQ:
		return boolVal(tBin(sel("bvsge", "bvuge"), ta, tb, "Bool"))
	case token.SHL:
		return tBin("bvshl", ta, tb, bs)
	case token.SHR:
		return tBin(sel("bvashr", "bvlshr"), ta, tb, bs)
	}
	panic(abort{"symbolic int binop " + op.String()})
}

func (e *Engine) floatBinop(op token.Token, x, y Value, bits int) Value {
	a, aok := x.(float64)
	b, bok := y.(float64)
	if aok && bok {
		rnd := func(f float64) float64 {
			if bits == 32 {
				return float64(float32(f))
			}
			return f
		}
		switch op {
		case token.ADD:
			return rnd(a + b)
		case token.SUB:
			return rnd(a - b)
		case token.MUL:
			return rnd(a * b)
		case token.QUO:
			return rnd(a / b)
		case token.LSS:
			return a < b
		case token.LEQ:
			return a <= b
		case token.GTR:
			return a > b
		case token.GEQ:
			return a >= b
		}
		panic(abort{"float binop " + op.String()})
	}
	ta, tb := floatTerm(x, bits), floatTerm(y, bits)
	switch op {
	case token.LSS:
		return boolVal(tBin("fp.lt", ta, tb, "Bool"))
	case token.LEQ:
		return boolVal(tBin("fp.leq", ta, tb, "Bool"))
	case token.GTR:
		return boolVal(tBin("fp.gt", ta, tb, "Bool"))
	case token.GEQ:
		return boolVal(tBin("fp.geq", ta, tb, "Bool"))
	case token.ADD:
		return mkTerm("(fp.add RNE "+ta.S+" "+tb.S+")", ta.Sort)
	case token.SUB:
		return mkTerm("(fp.sub RNE "+ta.S+" "+tb.S+")", ta.Sort)
	case token.MUL:
		return mkTerm("(fp.mul RNE "+ta.S+" "+tb.S+")", ta.Sort)
	case token.QUO:
		return mkTerm("(fp.div RNE "+ta.S+" "+tb.S+")", ta.Sort)
	}
	panic(abort{"symbolic float binop " + op.String()})
}

func (e *Engine) convert(x Value, from, to types.Type) Value {
	fu, tu := from.Underlying(), to.Underlying()
	fi, fIsInt := intInfoOf(from)
	ti, tIsInt := intInfoOf(to)
	ff, tf := floatBits(from), floatBits(to)
	switch {
	case fIsInt && tIsInt:
		switch n := x.(type) {
		case int64:
			return normInt(n, ti)
		case *Term:
			switch {
			case ti.bits == fi.bits:
				return n
			case ti.bits < fi.bits:
				return mkTerm(fmt.Sprintf("((_ extract %d 0) %s)", ti.bits-1, n.S), bvSort(ti.bits))
			case fi.unsigned:
				return mkTerm(fmt.Sprintf("((_ zero_extend %d) %s)", ti.bits-fi.bits, n.S), bvSort(ti.bits))
			default:
				return mkTerm(fmt.Sprintf("((_ sign_extend %d) %s)", ti.bits-fi.bits, n.S), bvSort(ti.bits))
			}
		}
	case fIsInt && tf != 0:
		switch n := x.(type) {
		case int64:
			var f float64
			if fi.unsigned && fi.bits == 64 {
				f = float64(uint64(n))
			} else {
				f = float64(n)
			}
			if tf == 32 {
				f = float64(float32(f))
			}
			return f
		case *Term:
			fs, spec := "F64", "11 53"
			if tf == 32 {
				fs, spec = "F32", "8 24"
			}
			if fi.unsigned {
				return mkTerm("((_ to_fp_unsigned "+spec+") RNE "+n.S+")", fs)
			}
			return mkTerm("((_ to_fp "+spec+") RNE "+n.S+")", fs)
		}
	case ff != 0 && tIsInt:
		switch f := x.(type) {
		case float64:
			if math.IsNaN(f) || math.IsInf(f, 0) {
				panic(abort{"float→int conversion of NaN/Inf (implementation-defined)"})
			}
			if ti.unsigned {
				return normInt(int64(uint64(f)), ti)
			}
			return normInt(int64(f), ti)
		case *Term:
			if ti.unsigned {
				return mkTerm(fmt.Sprintf("((_ fp.to_ubv %d) RTZ %s)", ti.bits, f.S), bvSort(ti.bits))
			}
			return mkTerm(fmt.Sprintf("((_ fp.to_sbv %d) RTZ %s)", ti.bits, f.S), bvSort(ti.bits))
		}
	case ff != 0 && tf != 0:
		switch f := x.(type) {
		case float64:
			if tf == 32 {
				return float64(float32(f))
			}
			return f
		case *Term:
			if ff == tf {
				return f
			}
			if tf == 32 {
				return mkTerm("((_ to_fp 8 24) RNE "+f.S+")", "F32")
			}
			return mkTerm("((_ to_fp 11 53) RNE "+f.S+")", "F64")
		}
	case isStringType(from) && isStringType(to):
		return x
	case fIsInt && isStringType(to):
		if n, ok := x.(int64); ok {
			return string(rune(n))
		}
	}
	if isStringType(from) {
		if ts, ok := tu.(*types.Slice); ok {
			if t, ok := x.(*Term); ok {
				if eb, ok := ts.Elem().Underlying().(*types.Basic); ok && eb.Kind() == types.Uint8 {
					return &AbsSeq{Len: mkTerm("(bytelen "+t.S+")", bvSort(64))}
				}
				return &AbsSeq{Len: mkTerm("(runelen "+t.S+")", bvSort(64))}
			}
			s := e.concreteStr(x)
			var elems []Value
			if ts.Elem().Underlying().(*types.Basic).Kind() == types.Uint8 {
				for i := 0; i < len(s); i++ {
					elems = append(elems, int64(s[i]))
				}
			} else {
				for _, r := range s {
					elems = append(elems, int64(r))
				}
			}
			return Slice{O: e.newObj(&Agg{F: elems}, "conv"), Len: len(elems), Cap: len(elems)}
		}
	}
	if jv, ok := x.(*JSONVal); ok && isStringType(to) {
		// only `string(raw) != "null"` is given meaning
		if k, ok := jv.Node.F[jKind].(int64); ok && k == jkNull {
			return "null"
		}
		return "⟨json⟩"
	}
	if fs, ok := fu.(*types.Slice); ok && isStringType(to) {
		sl, ok := x.(Slice)
		if !ok {
			panic(abort{"convert abstract sequence to string"})
		}
		var sb strings.Builder
		for _, el := range sliceElems(sl) {
			c, ok := el.(int64)
			if !ok {
				panic(abort{"symbolic byte/rune in string conversion"})
			}
			if fs.Elem().Underlying().(*types.Basic).Kind() == types.Uint8 {
				sb.WriteByte(byte(c))
			} else {
				sb.WriteRune(rune(c))
			}
		}
		return sb.String()
	}
	if _, ok := fu.(*types.Pointer); ok {
		if tb, ok := tu.(*types.Basic); ok && tb.Kind() == types.UnsafePointer {
			return x
		}
	}
	if fb, ok := fu.(*types.Basic); ok && fb.Kind() == types.UnsafePointer {
		if _, ok := tu.(*types.Pointer); ok {
			return x
		}
	}
	panic(abort{fmt.Sprintf("convert %s -> %s (%T)", from, to, x)})
}

func (e *Engine) typeAssert(in *ssa.TypeAssert, x Iface) Value {
	ok := false
	_, toIface := in.AssertedType.Underlying().(*types.Interface)
	if x.T != nil {
		if toIface {
			if _, isErr := x.V.(*ErrV); isErr {
				ok = types.Implements(errorType, in.AssertedType.Underlying().(*types.Interface)) ||
					e.errImplements(x.V.(*ErrV), in.AssertedType.Underlying().(*types.Interface))
			} else {
				ok = types.Implements(x.T, in.AssertedType.Underlying().(*types.Interface))
			}
		} else {
			ok = types.Identical(x.T, in.AssertedType)
		}
	}
	var res Value
	if ok {
		if toIface {
			res = x
		} else {
			res = x.V
		}
	} else {
		if !in.CommaOk {
			got := "nil"
			if x.T != nil {
				got = x.T.String()
			}
			panic(goPanic{msg: "interface conversion: interface is " + got + ", not " + in.AssertedType.String()})
		}
		res = zero(in.AssertedType)
	}
	if in.CommaOk {
		return &Agg{F: []Value{res, ok}}
	}
	return res
}

// errImplements: engine errors implement error, Unwrap() error (fmt.Errorf %w) and
// Unwrap() []error (errors.Join).
func (e *Engine) errImplements(ev *ErrV, it *types.Interface) bool {
	for i := 0; i < it.NumMethods(); i++ {
		m := it.Method(i)
		switch m.Name() {
		case "Error":
		case "Unwrap":
			sig := m.Type().(*types.Signature)
			_, isSlice := sig.Results().At(0).Type().Underlying().(*types.Slice)
			if isSlice != ev.Joined {
				return false
			}
			if !ev.Joined && len(ev.Wrapped) == 0 {
				return false
			}
		default:
			return false
		}
	}
	return true
}

// ---------------------------------------------------------------- maps

func (e *Engine) mapLookup(m *MapV, key Value, elem types.Type) (Value, Value) {
	if m == nil {
		return zero(elem), false
	}
	key = e.mapKey(key)
	for _, en := range m.Entries {
		if e.branch(e.eqVal(en.K, key)) {
			return copyVal(en.V), true
		}
	}
	return zero(elem), false
}

// mapKey: interface keys holding uncomparable dynamic types panic at run time.
func (e *Engine) mapKey(key Value) Value {
	if it, ok := key.(Iface); ok && it.T != nil && !types.Comparable(it.T) {
		panic(goPanic{msg: "runtime error: hash of unhashable type " + it.T.String()})
	}
	return key
}

func (e *Engine) mapUpdate(mv Value, key, val Value) {
	m, _ := mv.(*MapV)
	if m == nil {
		panic(goPanic{msg: "assignment to entry in nil map"})
	}
	if m.Frozen {
		panic(frozenWrite{"map update on frozen map (" + m.Tag + ")"})
	}
	key = e.mapKey(key)
	for _, en := range m.Entries {
		if e.branch(e.eqVal(en.K, key)) {
			en.V = copyVal(val)
			return
		}
	}
	m.Entries = append(m.Entries, &MapEntry{K: key, V: copyVal(val)})
}

func (e *Engine) mapDelete(m *MapV, key Value) {
	if m == nil {
		return
	}
	for i, en := range m.Entries {
		if e.branch(e.eqVal(en.K, key)) {
			if m.Frozen {
				panic(frozenWrite{"delete on frozen map (" + m.Tag + ")"})
			}
			m.Entries = append(append([]*MapEntry{}, m.Entries[:i]...), m.Entries[i+1:]...)
			return
		}
	}
}

// ---------------------------------------------------------------- builtins

func (e *Engine) builtin(fr *frame, b *ssa.Builtin, call *ssa.Call, args []Value) Value {
	switch b.Name() {
	case "len":
		switch x := args[0].(type) {
		case Slice:
			return int64(x.Len)
		case string:
			return int64(len(x))
		case *UStr:
			// all alternatives of the same length => concrete, else fork
			n := len(x.Alts[0].S)
			same := true
			for _, a := range x.Alts {
				if len(a.S) != n {
					same = false
				}
			}
			if same {
				return int64(n)
			}
			return int64(len(e.concretizeStr(x)))
		case *Term:
			if x.Sort == "Str" {
				return mkTerm("(bytelen "+x.S+")", bvSort(64))
			}
		case *AbsSeq:
			return x.Len
		case *MapV:
			if x == nil {
				return int64(0)
			}
			return int64(len(x.Entries))
		case *Agg:
			return int64(len(x.F))
		case Pointer: // *array
			if x.O == nil {
				return int64(call.Call.Args[0].Type().Underlying().(*types.Pointer).Elem().Underlying().(*types.Array).Len())
			}
			return int64(len(navigate(x.O.Val, x.Path).(*Agg).F))
		case nil:
			return int64(0)
		}
	case "cap":
		switch x := args[0].(type) {
		case Slice:
			return int64(x.Cap)
		case *Agg:
			return int64(len(x.F))
		}
	case "append":
		s := args[0].(Slice)
		var add []Value
		switch t := args[1].(type) {
		case Slice:
			for _, v := range sliceElems(t) {
				add = append(add, copyVal(v))
			}
		case string:
			for i := 0; i < len(t); i++ {
				add = append(add, int64(t[i]))
			}
		case *UStr:
			cs := e.concretizeStr(t)
			for i := 0; i < len(cs); i++ {
				add = append(add, int64(cs[i]))
			}
		}
		if len(add) == 0 {
			return s
		}
		if s.O != nil && s.Len+len(add) <= s.Cap {
			if s.O.Frozen {
				panic(frozenWrite{"append writes into frozen backing array (" + s.O.Tag + ")"})
			}
			arr := s.O.Val.(*Agg)
			for i, v := range add {
				arr.F[s.Off+s.Len+i] = v
			}
			return Slice{O: s.O, Off: s.Off, Len: s.Len + len(add), Cap: s.Cap}
		}
		newCap := s.Cap * 2
		if newCap < s.Len+len(add) {
			newCap = s.Len + len(add)
		}
		elem := call.Type().Underlying().(*types.Slice).Elem()
		ns := e.makeSlice(elem, s.Len+len(add), newCap, "append@"+fr.fn.Name())
		arr := ns.O.Val.(*Agg)
		for i, v := range sliceElems(s) {
			arr.F[i] = copyVal(v)
		}
		for i, v := range add {
			arr.F[s.Len+i] = v
		}
		return ns
	case "copy":
		dst := args[0].(Slice)
		var srcVals []Value
		switch src := args[1].(type) {
		case Slice:
			srcVals = sliceElems(src)
		case string:
			for i := 0; i < len(src); i++ {
				srcVals = append(srcVals, int64(src[i]))
			}
		default:
			panic(abort{"copy from unexpected value"})
		}
		n := dst.Len
		if len(srcVals) < n {
			n = len(srcVals)
		}
		if n > 0 && dst.O.Frozen {
			panic(frozenWrite{"copy into frozen backing array (" + dst.O.Tag + ")"})
		}
		tmp := make([]Value, n)
		for i := 0; i < n; i++ {
			tmp[i] = copyVal(srcVals[i])
		}
		for i := 0; i < n; i++ {
			dst.O.Val.(*Agg).F[dst.Off+i] = tmp[i]
		}
		return int64(n)
	case "delete":
		m, _ := args[0].(*MapV)
		e.mapDelete(m, args[1])
		return nil
	case "recover":
		// recover() called inside a deferred function: returns the panic of the
		// deferring frame, if any.
		if n := len(e.deferring); n > 0 {
			dfr := e.deferring[n-1]
			if dfr.panicking != nil {
				msg := dfr.panicking.msg
				dfr.panicking = nil
				return Iface{T: types.Typ[types.String], V: msg}
			}
		}
		return Iface{}
	case "min", "max":
		res := args[0]
		for _, a := range args[1:] {
			lt := e.binop(token.LSS, a, res, call.Type(), call.Type())
			if b.Name() == "max" {
				lt = e.binop(token.GTR, a, res, call.Type(), call.Type())
			}
			if e.branch(lt) {
				res = a
			}
		}
		return res
	case "clear":
		switch x := args[0].(type) {
		case *MapV:
			if x != nil {
				if x.Frozen && len(x.Entries) > 0 {
					panic(frozenWrite{"clear on frozen map"})
				}
				x.Entries = nil
			}
			return nil
		}
	case "print", "println":
		return nil
	case "ssa:wrapnilchk":
		if p, ok := args[0].(Pointer); ok && p.O == nil {
			panic(goPanic{msg: "value method " + e.concreteStr(args[1]) + "." + e.concreteStr(args[2]) + " called using nil pointer"})
		}
		return args[0]
	}
	panic(abort{fmt.Sprintf("builtin %s on %T", b.Name(), args[0])})
}
