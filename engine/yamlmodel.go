package main

import (
	"fmt"
	"go/token"
	"go/types"
	"reflect"
	"strconv"
	"strings"

	"golang.org/x/tools/go/ssa"
)

// A contract-level model of gopkg.in/yaml.v3 decoding (C20, C04 "YAML mode").
//
// Documents are the same symbolic trees as for JSON (zzverif.J; JSON text is YAML flow
// syntax, so the native replay feeds the real yaml.v3 with JSONBytes output). What is given
// meaning is yaml.v3's DOCUMENTED behaviour for decoding a node tree into Go values:
//   * struct fields are matched by their `yaml:"name"` tag, else by the lower-cased field
//     name; `,inline` structs and maps; `-` and unexported fields are skipped;
//   * with Decoder.KnownFields(true) a mapping key that matches no field is an error
//     ("field K not found in type T"), collected while decoding continues; without it the
//     key is ignored; a repeated mapping key is an error;
//   * a type whose pointer implements yaml.Unmarshaler gets UnmarshalYAML(*yaml.Node) — the
//     REAL method is executed symbolically — and (*yaml.Node).Decode starts a fresh decoder
//     whose KnownFields is false (this is yaml.v3's behaviour and the usual way strictness
//     is lost); the obsolete form UnmarshalYAML(func(any) error) keeps the decoder;
//   * null leaves non-nillable targets unchanged and zeroes pointers, maps, slices.
// The code under test that is executed for real: the loaders (which decoder options they
// set, what they do with the decoded structs) and every UnmarshalYAML method.

type yamlDecoder struct {
	doc   *Agg
	known bool
	done  bool
}

type yamlState struct {
	e     *Engine
	known bool
	errs  []string
	fatal *Iface
}

type yamlFatal struct{}

type yamlField struct {
	key   string
	index []int
}

type yamlStructInfo struct {
	fields    []yamlField
	inlineMap []int // index path of an inline map field, or nil
}

func yamlFieldsOf(st *types.Struct, prefix []int, info *yamlStructInfo) {
	for i := 0; i < st.NumFields(); i++ {
		f := st.Field(i)
		if !f.Exported() && !f.Embedded() {
			continue
		}
		tag := reflect.StructTag(st.Tag(i)).Get("yaml")
		parts := strings.Split(tag, ",")
		name := parts[0]
		inline := false
		for _, p := range parts[1:] {
			if p == "inline" {
				inline = true
			}
		}
		if name == "-" && len(parts) == 1 {
			continue
		}
		idx := append(append([]int{}, prefix...), i)
		if inline {
			switch u := f.Type().Underlying().(type) {
			case *types.Struct:
				yamlFieldsOf(u, idx, info)
				continue
			case *types.Map:
				info.inlineMap = idx
				continue
			}
			panic(abort{"yaml: inline field of unsupported type " + f.Type().String()})
		}
		if !f.Exported() {
			continue
		}
		if name == "" {
			name = strings.ToLower(f.Name())
		}
		info.fields = append(info.fields, yamlField{name, idx})
	}
}

func (e *Engine) yamlNodeType() *types.Named {
	pkg := e.prog.ImportedPackage("gopkg.in/yaml.v3")
	if pkg == nil {
		panic(abort{"yaml.v3 not loaded"})
	}
	return pkg.Type("Node").Type().(*types.Named)
}

// yamlNodeFor builds the *yaml.Node a custom unmarshaler receives for a document node.
func (e *Engine) yamlNodeFor(n *Agg) Pointer {
	nt := e.yamlNodeType()
	st := nt.Underlying().(*types.Struct)
	a := zero(nt).(*Agg)
	set := func(field string, v Value) {
		for i := 0; i < st.NumFields(); i++ {
			if st.Field(i).Name() == field {
				a.F[i] = v
			}
		}
	}
	scalar := func(tag string, val Value) {
		set("Kind", int64(8))
		set("Tag", tag)
		set("Value", val)
	}
	ptrs := func(nodes []*Agg) Slice {
		vals := make([]Value, len(nodes))
		for i, c := range nodes {
			vals[i] = e.yamlNodeFor(c)
		}
		return Slice{O: e.newObj(&Agg{F: vals}, "yaml.Content"), Len: len(vals), Cap: len(vals)}
	}
	switch e.jsonKind(n) {
	case jkNull:
		scalar("!!null", "null")
	case jkBool:
		b, ok := n.F[jBool].(bool)
		if !ok {
			panic(abort{"yaml.Node of a symbolic boolean"})
		}
		scalar("!!bool", strconv.FormatBool(b))
	case jkNumber:
		num, ok := n.F[jNum].(int64)
		frac, ok2 := n.F[jFrac].(bool)
		if !ok || !ok2 {
			panic(abort{"yaml.Node of a symbolic number"})
		}
		if frac {
			scalar("!!float", strconv.FormatInt(num, 10)+".5")
		} else {
			scalar("!!int", strconv.FormatInt(num, 10))
		}
	case jkString:
		scalar("!!str", n.F[jStr])
	case jkArray:
		set("Kind", int64(2))
		set("Tag", "!!seq")
		var kids []*Agg
		for _, el := range sliceElems(n.F[jArr].(Slice)) {
			kids = append(kids, el.(*Agg))
		}
		set("Content", ptrs(kids))
	default:
		set("Kind", int64(4))
		set("Tag", "!!map")
		keys := sliceElems(n.F[jKeys].(Slice))
		vals := sliceElems(n.F[jVals].(Slice))
		var kids []*Agg
		for i := range keys {
			k := jNode(jkString)
			k.F[jStr] = keys[i]
			kids = append(kids, k, vals[i].(*Agg))
		}
		set("Content", ptrs(kids))
	}
	o := e.newObj(a, "yaml.Node")
	if e.yamlNodes == nil {
		e.yamlNodes = map[*Obj]*Agg{}
	}
	e.yamlNodes[o] = n
	return Pointer{O: o}
}

func (e *Engine) yamlUnmarshal(doc *Agg, target Iface, known bool) Value {
	pt, ok := target.T.(*types.Pointer)
	if !ok {
		return e.newErr("yaml: Decode(non-pointer)", nil, false)
	}
	p := target.V.(Pointer)
	if p.O == nil {
		return e.newErr("yaml: Decode(nil pointer)", nil, false)
	}
	st := &yamlState{e: e, known: known}
	func() {
		defer func() {
			if r := recover(); r != nil {
				if _, ok := r.(yamlFatal); ok {
					return
				}
				panic(r)
			}
		}()
		storePtr(p, st.decode(doc, pt.Elem(), loadPtr(p)))
	}()
	if st.fatal != nil {
		return *st.fatal
	}
	if len(st.errs) > 0 {
		it := e.newErr("yaml: unmarshal errors:\n  "+strings.Join(st.errs, "\n  "), nil, false)
		if e.yamlTypeErrs == nil {
			e.yamlTypeErrs = map[int][]string{}
		}
		e.yamlTypeErrs[it.V.(*ErrV).ID] = st.errs
		return it
	}
	return Iface{}
}

func (st *yamlState) typeErr(n *Agg, t types.Type) {
	tags := []string{"!!null", "!!bool", "!!int", "!!str", "!!seq", "!!map"}
	st.errs = append(st.errs, fmt.Sprintf("line 1: cannot unmarshal %s into %s", tags[st.e.jsonKind(n)], types.TypeString(t, func(p *types.Package) string { return p.Name() })))
}

func (st *yamlState) fail(err Iface) {
	st.fatal = &err
	panic(yamlFatal{})
}

// unmarshalerOf: the UnmarshalYAML method of *t, if any, and whether it is the obsolete form.
func (e *Engine) unmarshalerOf(t types.Type) (*ssa.Function, bool) {
	if _, ok := t.(*types.Named); !ok {
		return nil, false
	}
	sel := e.prog.MethodSets.MethodSet(types.NewPointer(t)).Lookup(nil, "UnmarshalYAML")
	if sel == nil {
		return nil, false
	}
	sig := sel.Type().(*types.Signature)
	if sig.Params().Len() != 1 || sig.Results().Len() != 1 {
		return nil, false
	}
	fn := e.prog.MethodValue(sel)
	if fn == nil {
		return nil, false
	}
	_, obsolete := sig.Params().At(0).Type().Underlying().(*types.Signature)
	return fn, obsolete
}

func (st *yamlState) decode(n *Agg, t types.Type, cur Value) Value {
	e := st.e
	kind := e.jsonKind(n)
	if kind == jkNull {
		switch t.Underlying().(type) {
		case *types.Pointer, *types.Map, *types.Slice, *types.Interface:
			return zero(t)
		}
		return cur
	}
	if fn, obsolete := e.unmarshalerOf(t); fn != nil {
		obj := e.newObj(copyVal(cur), "yaml.target")
		var res Value
		if obsolete {
			inner := &Closure{Native: func(e *Engine, args []Value) Value {
				return e.yamlUnmarshal(n, args[0].(Iface), st.known)
			}}
			res = e.callFn(fn, []Value{Pointer{O: obj}, inner}, nil)
		} else {
			res = e.callFn(fn, []Value{Pointer{O: obj}, e.yamlNodeFor(n)}, nil)
		}
		if it, ok := res.(Iface); ok && it.T != nil {
			if ev, ok := it.V.(*ErrV); ok && e.yamlTypeErrs[ev.ID] != nil {
				st.errs = append(st.errs, e.yamlTypeErrs[ev.ID]...)
			} else {
				st.fail(it)
			}
		}
		return obj.Val
	}
	switch u := t.Underlying().(type) {
	case *types.Pointer:
		var inner Value = zero(u.Elem())
		if cp, ok := cur.(Pointer); ok && cp.O != nil {
			inner = loadPtr(cp)
		}
		return Pointer{O: e.newObj(st.decode(n, u.Elem(), inner), "yaml")}
	case *types.Interface:
		if u.NumMethods() != 0 {
			panic(abort{"yaml: decode into a non-empty interface " + t.String()})
		}
		return st.generic(n)
	case *types.Basic:
		switch {
		case u.Info()&types.IsString != 0:
			switch kind {
			case jkString:
				return e.convertNamed(n.F[jStr], t)
			case jkNumber, jkBool:
				// yaml.v3 stores the scalar's text
				if num, ok := n.F[jNum].(int64); ok && kind == jkNumber {
					if fr, ok := n.F[jFrac].(bool); ok && !fr {
						return strconv.FormatInt(num, 10)
					}
				}
				panic(abort{"yaml: symbolic non-string scalar into a Go string"})
			}
		case u.Info()&types.IsBoolean != 0:
			if kind == jkBool {
				return n.F[jBool]
			}
		case u.Info()&types.IsInteger != 0:
			if kind == jkNumber && !e.branch(n.F[jFrac]) {
				return e.convert(n.F[jNum], types.Typ[types.Int64], t)
			}
		case u.Info()&types.IsFloat != 0:
			if kind == jkNumber {
				f := e.convert(n.F[jNum], types.Typ[types.Int64], types.Typ[types.Float64])
				if e.branch(n.F[jFrac]) {
					panic(abort{"yaml: fractional number"})
				}
				return e.convert(f, types.Typ[types.Float64], t)
			}
		}
		st.typeErr(n, t)
		return cur
	case *types.Slice:
		if kind != jkArray {
			st.typeErr(n, t)
			return cur
		}
		elems := sliceElems(n.F[jArr].(Slice))
		out := make([]Value, len(elems))
		for i, el := range elems {
			out[i] = st.decode(el.(*Agg), u.Elem(), zero(u.Elem()))
		}
		return Slice{O: e.newObj(&Agg{F: out}, "yaml[]"), Len: len(out), Cap: len(out)}
	case *types.Map:
		if kind != jkObject {
			st.typeErr(n, t)
			return cur
		}
		m, _ := cur.(*MapV)
		if m == nil {
			e.nextID++
			m = &MapV{ID: e.nextID, Tag: "yaml{}"}
		}
		keys := sliceElems(n.F[jKeys].(Slice))
		vals := sliceElems(n.F[jVals].(Slice))
		for i := range keys {
			e.mapUpdate(m, e.convertNamed(keys[i], u.Key()), st.decode(vals[i].(*Agg), u.Elem(), zero(u.Elem())))
		}
		return m
	case *types.Struct:
		if kind != jkObject {
			st.typeErr(n, t)
			return cur
		}
		info := &yamlStructInfo{}
		yamlFieldsOf(u, nil, info)
		agg := copyVal(cur).(*Agg)
		keys := sliceElems(n.F[jKeys].(Slice))
		vals := sliceElems(n.F[jVals].(Slice))
		seen := map[string]bool{}
		for i := range keys {
			key := e.concreteStr(keys[i])
			if seen[key] {
				st.fail(e.newErr(fmt.Sprintf("yaml: mapping key %q already defined at line 1", key), nil, false))
			}
			seen[key] = true
			var path []int
			for _, f := range info.fields {
				if f.key == key {
					path = f.index
				}
			}
			if path == nil {
				if info.inlineMap != nil {
					holder, ft := yamlFieldAt(agg, u, info.inlineMap[:len(info.inlineMap)-1])
					last := info.inlineMap[len(info.inlineMap)-1]
					mt := ft.Field(last).Type().Underlying().(*types.Map)
					m, _ := holder.F[last].(*MapV)
					if m == nil {
						e.nextID++
						m = &MapV{ID: e.nextID, Tag: "yaml-inline{}"}
						holder.F[last] = m
					}
					e.mapUpdate(m, key, st.decode(vals[i].(*Agg), mt.Elem(), zero(mt.Elem())))
				} else if st.known {
					st.errs = append(st.errs, fmt.Sprintf("line 1: field %s not found in type %s", key, types.TypeString(t, func(p *types.Package) string { return p.Name() })))
				}
				continue
			}
			holder, ft := yamlFieldAt(agg, u, path[:len(path)-1])
			last := path[len(path)-1]
			holder.F[last] = st.decode(vals[i].(*Agg), ft.Field(last).Type(), holder.F[last])
		}
		return agg
	}
	panic(abort{"yaml: decode into unsupported type " + t.String()})
}

// yamlFieldAt walks an index path of inline structs inside agg (agg is already a private copy).
func yamlFieldAt(agg *Agg, st *types.Struct, path []int) (*Agg, *types.Struct) {
	for _, i := range path {
		inner := copyVal(agg.F[i]).(*Agg)
		agg.F[i] = inner
		agg = inner
		st = st.Field(i).Type().Underlying().(*types.Struct)
	}
	return agg, st
}

func (e *Engine) convertNamed(v Value, t types.Type) Value { return v }

func (st *yamlState) generic(n *Agg) Value {
	e := st.e
	anyT := types.NewInterfaceType(nil, nil)
	switch e.jsonKind(n) {
	case jkNull:
		return Iface{}
	case jkBool:
		return Iface{T: types.Typ[types.Bool], V: n.F[jBool]}
	case jkNumber:
		if e.branch(n.F[jFrac]) {
			f := e.convert(n.F[jNum], types.Typ[types.Int64], types.Typ[types.Float64])
			return Iface{T: types.Typ[types.Float64], V: e.floatBinop(token.ADD, f, float64(0.5), 64)}
		}
		return Iface{T: types.Typ[types.Int], V: n.F[jNum]}
	case jkString:
		return Iface{T: types.Typ[types.String], V: n.F[jStr]}
	case jkArray:
		var out []Value
		for _, el := range sliceElems(n.F[jArr].(Slice)) {
			out = append(out, st.generic(el.(*Agg)))
		}
		return Iface{T: types.NewSlice(anyT), V: Slice{O: e.newObj(&Agg{F: out}, "yaml[]any"), Len: len(out), Cap: len(out)}}
	default:
		e.nextID++
		m := &MapV{ID: e.nextID, Tag: "yaml{}any"}
		keys := sliceElems(n.F[jKeys].(Slice))
		vals := sliceElems(n.F[jVals].(Slice))
		for i := range keys {
			e.mapUpdate(m, keys[i], st.generic(vals[i].(*Agg)))
		}
		return Iface{T: types.NewMap(types.Typ[types.String], anyT), V: m}
	}
}

func (e *Engine) readerDoc(v Value) *Agg {
	it, _ := v.(Iface)
	p, ok := it.V.(Pointer)
	if !ok || p.O == nil {
		panic(abort{"yaml.NewDecoder on a nil reader"})
	}
	nv, ok := p.O.Val.(*NativeVal)
	if !ok {
		panic(abort{"yaml.NewDecoder on a reader the engine cannot see through: " + typeStr(it.T)})
	}
	r, ok := nv.V.(*jsonReader)
	if !ok || r.doc == nil {
		panic(abort{"yaml.NewDecoder on an unsupported reader"})
	}
	return r.doc
}

func (e *Engine) yamlIntrinsic(fn *ssa.Function, name string, args []Value) (Value, bool) {
	switch name {
	case "gopkg.in/yaml.v3.NewDecoder":
		return Pointer{O: e.newObj(&NativeVal{&yamlDecoder{doc: e.readerDoc(args[0])}}, "yaml.Decoder")}, true
	case "(*gopkg.in/yaml.v3.Decoder).KnownFields":
		b, ok := args[1].(bool)
		if !ok {
			panic(abort{"yaml: KnownFields with a symbolic flag"})
		}
		nativeOf(args[0]).(*yamlDecoder).known = b
		return nil, true
	case "(*gopkg.in/yaml.v3.Decoder).Decode":
		d := nativeOf(args[0]).(*yamlDecoder)
		if d.done {
			return e.ioEOF(), true
		}
		d.done = true
		return e.yamlUnmarshal(d.doc, args[1].(Iface), d.known), true
	case "(*gopkg.in/yaml.v3.Node).Decode":
		p, ok := args[0].(Pointer)
		if !ok || p.O == nil {
			panic(goPanic{msg: "nil pointer dereference"})
		}
		doc := e.yamlNodes[p.O]
		if doc == nil {
			panic(abort{"yaml.Node.Decode on a node the engine did not create"})
		}
		return e.yamlUnmarshal(doc, args[1].(Iface), false), true
	case "gopkg.in/yaml.v3.Unmarshal":
		doc, ok := e.docOf(args[0])
		if !ok || doc == nil {
			panic(abort{"yaml.Unmarshal on bytes the harness did not build"})
		}
		return e.yamlUnmarshal(doc, args[1].(Iface), false), true
	case "os.Open":
		path := e.concreteStr(args[0])
		doc := e.tempFiles[path]
		if doc == nil {
			return &Agg{F: []Value{Pointer{}, e.newErr("open "+path+": no such file or directory", nil, false)}}, true
		}
		return &Agg{F: []Value{Pointer{O: e.newObj(&NativeVal{&jsonReader{doc: doc}}, "os.File")}, Iface{}}}, true
	case "(*os.File).Close":
		return Iface{}, true
	case "os.Getwd":
		return &Agg{F: []Value{"/verif-cwd", Iface{}}}, true
	}
	return nil, false
}
