package main

import (
	"go/types"
	"encoding/json"
	"flag"
	"fmt"
	"go/constant"
	"os"
	"runtime"
	"runtime/debug"
	"runtime/pprof"
	"sort"
	"strings"
	"sync"
	"time"

	"golang.org/x/tools/go/packages"
	"golang.org/x/tools/go/ssa"
	"golang.org/x/tools/go/ssa/ssautil"
)

type KnownFinding struct {
	ID     string `json:"id"`
	Entry  string `json:"entry"`  // harness entry the finding belongs to ("" = any)
	Match  string `json:"match"`  // substring of the event key kind:msg@func
	Excuse string `json:"excuse"` // name of the Excuse predicate ("" = the key alone identifies it)
}

type Config struct {
	Tier       int
	MaxDepth   int
	MaxSteps   int
	MaxPaths   int
	Timeout    time.Duration
	Witness    bool
	Hangs      bool
	Known      []KnownFinding
	Workers    int
	SolverBin  string
	SolverArgs []string
}

type Event struct {
	Entry   string   `json:"entry"`
	Kind    string   `json:"kind"` // assert | panic | frozen | harness
	Msg     string   `json:"msg"`
	Func    string   `json:"func"`
	Stack   []string `json:"stack"`
	Excuse  string   `json:"known_finding,omitempty"`
	Count   int      `json:"count"`
	Prefix  []int    `json:"prefix"`
	Draws   []*Draw  `json:"draws"`
	Observe []string `json:"observed,omitempty"`
}

type EntryResult struct {
	Entry          string         `json:"entry"`
	Paths          int            `json:"paths"`
	Completed      int            `json:"paths_completed"`
	Counters       map[string]int `json:"counters"`
	Aborts         map[string]int `json:"aborts"`
	Bounds         map[string]int `json:"bounds"`
	Panics         map[string]int `json:"panics"`
	Events         []*Event       `json:"events"`
	AssertHits     map[string]int `json:"assert_hits"`
	AssertSymbolic map[string]int `json:"assert_symbolic"`
	StaticAsserts  []string       `json:"static_asserts"`
	Reach          map[string]int `json:"reach"`
	Funcs          map[string]int `json:"funcs"`
	Queries        int            `json:"queries"`
	Sat            int            `json:"sat"`
	Unsat          int            `json:"unsat"`
	Unknown        int            `json:"unknown"`
	SolverS        float64        `json:"solver_s"`
	WallS          float64        `json:"wall_s"`
	Incomplete     string         `json:"incomplete,omitempty"`
	Samples        []string       `json:"samples,omitempty"`
}

type Shared struct {
	cfg  Config
	prog *ssa.Program
	leaf *leafServer

	extraIntrinsics map[string]func(e *Engine, fn *ssa.Function, args []Value) Value

	mu     sync.Mutex
	cond   *sync.Cond
	work   [][]int
	active int
	stop   string
	res    *EntryResult
	events map[string]*Event
}

func (sh *Shared) count(k string, n int) {
	sh.mu.Lock()
	sh.res.Counters[k] += n
	sh.mu.Unlock()
}
func (e *Engine) count(k string, n int) { e.counters[k] += n }
func (e *Engine) noteFunc(f *ssa.Function) {
	e.funcs[f]++
}
func (sh *Shared) assertHit(entry, msg string, symbolic bool) {
	sh.mu.Lock()
	sh.res.AssertHits[msg]++
	if symbolic {
		sh.res.AssertSymbolic[msg]++
	}
	sh.mu.Unlock()
}
func (sh *Shared) reachHit(entry, label string) {
	sh.mu.Lock()
	sh.res.Reach[label]++
	sh.mu.Unlock()
}

// recordEvent is called with the solver in a sat state for the violating condition.
func (sh *Shared) recordEvent(e *Engine, kind, msg, fn string, stack []string, excuse string) {
	key := kind + "\x00" + msg + "\x00" + fn + "\x00" + excuse
	sh.mu.Lock()
	ev, ok := sh.events[key]
	if ok {
		ev.Count++
		sh.mu.Unlock()
		return
	}
	ev = &Event{Entry: e.entryName, Kind: kind, Msg: msg, Func: fn, Stack: stack, Excuse: excuse, Count: 1}
	sh.events[key] = ev
	sh.mu.Unlock()
	// fill the model outside the lock (solver belongs to this worker)
	ev.Prefix = append([]int{}, e.prefix[:e.depth]...)
	ev.Draws = e.modelDraws()
	ev.Observe = append([]string{}, e.observed...)
}

// modelDraws evaluates every draw of the current path in the solver's model.
func (e *Engine) modelDraws() []*Draw {
	var terms []string
	for _, d := range e.draws {
		if d.Var == "" {
			continue
		}
		terms = append(terms, d.Var)
		if d.Kind == "astr" {
			terms = append(terms, "(bytelen "+d.Var+")", "(runelen "+d.Var+")")
		}
	}
	// prefer a model with short abstract strings (the native replay has to build them);
	// if there is none, fall back to whatever model the solver has
	var small *Term
	for _, d := range e.draws {
		if d.Kind == "astr" {
			c := tBin("bvule", mkTerm("(bytelen "+d.Var+")", bvSort(64)), tBV(64, 64), "Bool")
			if small == nil {
				small = c
			} else {
				small = tAnd(small, c)
			}
		}
	}
	var vals []string
	if small != nil {
		e.solver.Push()
		e.solver.Assert(small)
		if e.solver.Check() == "sat" {
			vals = e.solver.Values(terms)
		}
		e.solver.Pop()
		if vals == nil && e.solver.Check() != "sat" {
			panic(solverError{"model lost while looking for a small one"})
		}
	}
	if vals == nil {
		vals = e.solver.Values(terms)
	}
	out := make([]*Draw, 0, len(e.draws))
	i := 0
	for _, d := range e.draws {
		c := *d
		if d.Var != "" {
			v := vals[i]
			i++
			switch d.Kind {
			case "bool":
				c.Val = v == "true"
			case "int", "uint":
				n, _ := modelInt(v)
				if d.Kind == "int" {
					n = normInt(n, intInfo{d.Bits, false})
					c.Val = n
				} else {
					c.Val = uint64(normInt(n, intInfo{d.Bits, true}))
				}
			case "str":
				n, _ := modelInt(v)
				if n < 0 || int(n) >= len(d.Alts) {
					n = 0
				}
				c.Val = int(n)
			case "float":
				f, _ := modelFloat(v, d.Bits)
				c.Val = fmt.Sprintf("%x", f) // hex float keeps the exact value
			case "astr":
				bl, _ := modelInt(vals[i])
				rl, _ := modelInt(vals[i+1])
				i += 2
				c.Val = map[string]interface{}{"id": v, "bytelen": bl, "runelen": rl}
			}
		}
		out = append(out, &c)
	}
	return out
}

// ---------------------------------------------------------------- path driver

// development aid (-pathstats K): histogram of paths over their first K explicit choices
var pathStatsK int
var pathStats = map[string]int{}

func (e *Engine) runPath(entry *ssa.Function, prefix []int) {
	sh := e.sh
	e.prefix, e.depth, e.steps = prefix, 0, 0
	e.stack = e.stack[:0]
	e.deferring = nil
	e.draws, e.nsym, e.observed = nil, 0, nil
	e.newWork = nil
	e.globals = map[*ssa.Global]*Obj{}
	e.initRunning = nil
	e.kb = map[string]bool{}
	e.inInit = 0
	e.excuses = map[string]*Term{}
	e.strLits = map[string]*Term{}
	e.symOrder = false
	e.bufText = nil
	e.yamlNodes, e.yamlTypeErrs, e.tempFiles = nil, nil, nil
	e.nextID = 0
	e.solver.Reset()
	completed := false
	defer func() {
		r := recover()
		sh.mu.Lock()
		defer sh.mu.Unlock()
		sh.res.Paths++
		if pathStatsK > 0 {
			key, n := "", 0
			for _, d := range e.draws {
				if d.Kind == "choose" && n < pathStatsK {
					key += fmt.Sprintf("%v/%s ", d.Val, d.Name)
					n++
				}
			}
			pathStats[key]++
		}
		if completed {
			sh.res.Completed++
			if len(sh.res.Samples) < 3 && len(e.draws) > 0 {
				sh.res.Samples = append(sh.res.Samples, e.describeDraws())
			}
		}
		if r == nil {
			return
		}
		switch x := r.(type) {
		case abort:
			sh.res.Aborts[x.why+" @"+e.top()]++
		case outOfBound:
			sh.res.Bounds[x.why]++
			if sh.cfg.Hangs && (strings.HasPrefix(x.why, "step budget") || strings.HasPrefix(x.why, "call depth")) {
				// a path that exhausts the unwinding bound is a non-termination candidate (confirmed natively under a watchdog)
				sh.mu.Unlock()
				e.reportPanic(hangCandidate{x.why})
				sh.mu.Lock()
			}
		case goPanic, frozenWrite:
			// handled below (needs the lock released)
			sh.mu.Unlock()
			e.reportPanic(x)
			sh.mu.Lock()
		case pathEnd:
		case harnessFatal:
			sh.res.Aborts["HARNESS FATAL: "+x.msg]++
		case solverError:
			sh.res.Aborts["SOLVER ERROR: "+x.msg]++
			sh.mu.Unlock()
			e.solver.Close()
			e.solver.start()
			sh.mu.Lock()
		default:
			// a Go runtime panic inside the engine itself: count it as unsupported, never as a verdict
			buf := make([]byte, 2048)
			buf = buf[:runtime.Stack(buf, false)]
			msg := fmt.Sprint(r)
			if i := strings.Index(string(buf), "main.(*Engine)"); i >= 0 {
				j := i + 300
				if j > len(buf) {
					j = len(buf)
				}
				msg += " | " + strings.ReplaceAll(string(buf[i:j]), "\n", " ")
			}
			sh.res.Aborts["ENGINE BUG: "+msg]++
		}
	}()
	e.callFn(entry, nil, nil)
	completed = true
}

func (e *Engine) top() string {
	if len(e.stack) == 0 {
		return "?"
	}
	return e.stack[len(e.stack)-1].String()
}

func (e *Engine) describeDraws() string {
	var parts []string
	for _, d := range e.draws {
		switch d.Kind {
		case "choose":
			parts = append(parts, fmt.Sprintf("choose(%s)=%v", d.Name, d.Val))
		case "str":
			parts = append(parts, fmt.Sprintf("%s∈{%s}", d.Name, strings.Join(d.Alts, ",")))
		default:
			parts = append(parts, d.Kind+":"+d.Name)
		}
		if len(parts) > 40 {
			parts = append(parts, "…")
			break
		}
	}
	return strings.Join(parts, " ")
}

func (e *Engine) reportPanic(r interface{}) {
	defer func() {
		if x := recover(); x != nil {
			if se, ok := x.(solverError); ok {
				e.sh.mu.Lock()
				e.sh.res.Aborts["SOLVER ERROR: "+se.msg]++
				e.sh.mu.Unlock()
				e.solver.Close()
				e.solver.start()
				return
			}
			panic(x)
		}
	}()
	kind, msg := "panic", ""
	switch x := r.(type) {
	case hangCandidate:
		kind, msg = "hang", "unwinding bound exhausted: "+strings.SplitN(x.why, " in ", 2)[0]
	case goPanic:
		msg = normalisePanic(x.msg)
		if x.stack != nil {
			e.stack = x.stack
		}
	case frozenWrite:
		kind, msg = "frozen", x.msg
	}
	fn, _ := e.blameFunc()
	if kind == "hang" {
		// where the budget ran out is arbitrary: name the outermost function of the code under test
		for _, f := range e.stack {
			if !isHarnessFunc(f) && isUnderTest(f) {
				fn = f.String()
				break
			}
		}
	}
	if kind == "panic" && len(e.stack) > 0 && isHarnessFunc(e.stack[len(e.stack)-1]) && !strings.HasPrefix(msg, "explicit panic") {
		kind = "harness"
	}
	e.sh.mu.Lock()
	e.sh.res.Panics[kind+": "+msg+" @"+fn]++
	e.sh.mu.Unlock()
	if e.replaying() {
		return
	}
	e.report(kind, msg, tTrue)
}

// normalisePanic strips concrete indices so that one defect is one group.
func normalisePanic(m string) string {
	for _, p := range []string{"index out of range", "slice bounds out of range"} {
		if strings.HasPrefix(m, p) {
			return p
		}
	}
	if strings.HasPrefix(m, "interface conversion:") {
		return "interface conversion (failed type assertion)"
	}
	if len(m) > 160 {
		m = m[:160]
	}
	return m
}

func (sh *Shared) worker(entry *ssa.Function, wg *sync.WaitGroup, deadline time.Time, stats *solverStats) {
	defer wg.Done()
	e := &Engine{sh: sh, prog: sh.prog, solver: NewSolver(sh.cfg.SolverBin, sh.cfg.SolverArgs...), entryName: entry.Name(),
		funcs: map[*ssa.Function]int{}, counters: map[string]int{}, deadline: deadline}
	defer func() {
		stats.add(e.solver)
		e.solver.Close()
		sh.mu.Lock()
		for f, n := range e.funcs {
			if !isHarnessFunc(f) {
				sh.res.Funcs[f.String()] += n
			}
		}
		for k, n := range e.counters {
			sh.res.Counters[k] += n
		}
		sh.mu.Unlock()
	}()
	for {
		sh.mu.Lock()
		for len(sh.work) == 0 && sh.active > 0 && sh.stop == "" {
			sh.cond.Wait()
		}
		if sh.stop != "" || len(sh.work) == 0 {
			sh.mu.Unlock()
			sh.cond.Broadcast()
			return
		}
		p := sh.work[len(sh.work)-1]
		sh.work = sh.work[:len(sh.work)-1]
		sh.active++
		sh.mu.Unlock()

		e.runPath(entry, p)

		sh.mu.Lock()
		sh.work = append(sh.work, e.newWork...)
		sh.active--
		if sh.cfg.MaxPaths > 0 && sh.res.Paths >= sh.cfg.MaxPaths && (len(sh.work) > 0 || sh.active > 0) {
			sh.stop = fmt.Sprintf("path budget %d exhausted", sh.cfg.MaxPaths)
		}
		if time.Now().After(deadline) && (len(sh.work) > 0 || sh.active > 0) {
			sh.stop = "time budget exhausted"
		}
		sh.mu.Unlock()
		sh.cond.Broadcast()
	}
}

type hangCandidate struct{ why string }

type solverStats struct {
	mu                           sync.Mutex
	queries, sat, unsat, unknown int
	t                            time.Duration
}

func (s *solverStats) add(sv *Solver) {
	s.mu.Lock()
	s.queries += sv.Queries
	s.sat += sv.Sat
	s.unsat += sv.Unsat
	s.unknown += sv.Unknown
	s.t += sv.Time
	s.mu.Unlock()
}

func (sh *Shared) explore(entry *ssa.Function) *EntryResult {
	res := &EntryResult{Entry: entry.Name(), Counters: map[string]int{}, Aborts: map[string]int{}, Bounds: map[string]int{},
		Panics: map[string]int{}, AssertHits: map[string]int{}, AssertSymbolic: map[string]int{}, Reach: map[string]int{}, Funcs: map[string]int{}}
	sh.res = res
	sh.events = map[string]*Event{}
	sh.work = [][]int{{}}
	sh.active = 0
	sh.stop = ""
	t0 := time.Now()
	deadline := t0.Add(sh.cfg.Timeout)
	var wg sync.WaitGroup
	stats := &solverStats{}
	for i := 0; i < sh.cfg.Workers; i++ {
		wg.Add(1)
		go sh.worker(entry, &wg, deadline, stats)
	}
	wg.Wait()
	res.Incomplete = sh.stop
	res.Queries, res.Sat, res.Unsat, res.Unknown, res.SolverS = stats.queries, stats.sat, stats.unsat, stats.unknown, stats.t.Seconds()
	res.WallS = time.Since(t0).Seconds()
	for _, ev := range sh.events {
		res.Events = append(res.Events, ev)
	}
	sort.Slice(res.Events, func(i, j int) bool {
		a, b := res.Events[i], res.Events[j]
		return a.Kind+a.Msg+a.Func+a.Excuse < b.Kind+b.Msg+b.Func+b.Excuse
	})
	res.StaticAsserts = staticAsserts(entry)
	return res
}

// staticAsserts lists the messages of every zzverif.Assert call site reachable
// (statically) from the entry inside harness code; an assertion that no path
// reaches makes the harness vacuous for it.
func staticAsserts(entry *ssa.Function) []string {
	seen := map[*ssa.Function]bool{}
	msgs := map[string]bool{}
	var visit func(f *ssa.Function)
	visit = func(f *ssa.Function) {
		if f == nil || seen[f] || f.Blocks == nil {
			return
		}
		seen[f] = true
		if !isHarnessFunc(f) {
			return
		}
		for _, b := range f.Blocks {
			for _, ins := range b.Instrs {
				if c, ok := ins.(ssa.CallInstruction); ok {
					if cal := c.Common().StaticCallee(); cal != nil {
						if cal.Name() == "Assert" && cal.Pkg != nil && strings.HasSuffix(cal.Pkg.Pkg.Path(), verifPkgSuffix) {
							if k, ok := c.Common().Args[1].(*ssa.Const); ok && k.Value != nil {
								msgs[constant.StringVal(k.Value)] = true
							}
						}
						visit(cal)
					}
				}
				for _, op := range ins.Operands(nil) {
					if op == nil || *op == nil {
						continue
					}
					switch x := (*op).(type) {
					case *ssa.Function:
						visit(x)
					case *ssa.MakeClosure:
						visit(x.Fn.(*ssa.Function))
					}
				}
			}
		}
		for _, a := range f.AnonFuncs {
			visit(a)
		}
	}
	visit(entry)
	var out []string
	for m := range msgs {
		out = append(out, m)
	}
	sort.Strings(out)
	return out
}

func main() {
	overlayJSON := flag.String("overlay", "", "json file: {virtual path: real path}")
	dir := flag.String("dir", "/repo", "module directory to load from")
	pkgPat := flag.String("pkgs", "", "comma separated package patterns")
	entries := flag.String("entries", "", "comma separated harness function names")
	out := flag.String("out", "", "result json")
	tier := flag.Int("tier", 0, "0 quick, 1 thorough")
	workers := flag.Int("workers", 16, "")
	maxPaths := flag.Int("maxpaths", 400000, "")
	maxSteps := flag.Int("maxsteps", 2000000, "")
	maxDepth := flag.Int("maxdepth", 150, "")
	timeout := flag.Duration("timeout", 10*time.Minute, "per entry")
	witness := flag.Bool("witness", false, "vacuity twin: only count reached assertions")
	hangs := flag.Bool("hangs", false, "report paths that exhaust the step/recursion bound as non-termination candidates")
	known := flag.String("known", "", "json file with known findings")
	leafBin := flag.String("leaf", "", "leaf server binary (native-lifted pure functions)")
	solver := flag.String("solver", "z3", "z3 | z3-new | cvc5")
	under := flag.String("undertest", "github.com/grafana/cog", "package path prefix of the code under test")
	cpuprof := flag.String("cpuprofile", "", "")
	gcPercent := flag.Int("gcpercent", 600, "GOGC for the engine (the SSA program is a large, static live heap)")
	genDC := flag.String("gen-deepcopy", "", "write the generated DeepCopy harness to this file and exit")
	genList := flag.String("gen-list", "", "write the list of generated entries to this file")
	genUn := flag.String("gen-unions", "", "write the generated union-dispatch harness to this file and exit")
	genEq := flag.String("gen-equals", "", "write generated Equals harness files into this directory and exit")
	modPath := flag.String("modpath", "verifgen", "module path of the generated code")
	listRanges := flag.Bool("list-mapranges", false, "print every `range` over a map in the code under test (file:line function) and exit")
	flag.IntVar(&pathStatsK, "pathstats", 0, "development aid: print a histogram of paths over their first K explicit choices")
	flag.Parse()
	if *genEq != "" {
		genEquals(*dir, strings.Split(*pkgPat, ","), *genEq, *genList, *modPath)
		return
	}
	if *genUn != "" {
		genUnions(*dir, strings.Split(*pkgPat, ","), *genUn, *genList)
		return
	}
	if *genDC != "" {
		genDeepCopy(*dir, strings.Split(*pkgPat, ","), *genDC, *genList)
		return
	}
	debug.SetGCPercent(*gcPercent)
	underTestPrefix = *under
	if *cpuprof != "" {
		f, _ := os.Create(*cpuprof)
		pprof.StartCPUProfile(f)
		defer pprof.StopCPUProfile()
	}

	cfg := Config{Tier: *tier, MaxDepth: *maxDepth, MaxSteps: *maxSteps, MaxPaths: *maxPaths, Timeout: *timeout, Witness: *witness, Workers: *workers, Hangs: *hangs}
	switch *solver {
	case "z3", "z3-new":
		cfg.SolverBin, cfg.SolverArgs = *solver, []string{"-in"}
	case "cvc5":
		cfg.SolverBin, cfg.SolverArgs = "cvc5", []string{"--incremental", "--lang=smt2", "--produce-models", "--fp-exp"}
	}
	if *known != "" {
		raw, err := os.ReadFile(*known)
		if err != nil {
			fatal(err)
		}
		if err := json.Unmarshal(raw, &cfg.Known); err != nil {
			fatal(err)
		}
	}
	overlay := map[string][]byte{}
	if *overlayJSON != "" {
		raw, err := os.ReadFile(*overlayJSON)
		if err != nil {
			fatal(err)
		}
		m := map[string]string{}
		if err := json.Unmarshal(raw, &m); err != nil {
			fatal(err)
		}
		for virt, real := range m {
			b, err := os.ReadFile(real)
			if err != nil {
				fatal(err)
			}
			overlay[virt] = b
		}
	}
	t0 := time.Now()
	pcfg := &packages.Config{Mode: packages.LoadAllSyntax, Dir: *dir, Overlay: overlay,
		Env: append(os.Environ(), "GOFLAGS=-mod=mod", "GOPROXY=off", "GOSUMDB=off", "GOTOOLCHAIN=local")}
	pkgs, err := packages.Load(pcfg, strings.Split(*pkgPat, ",")...)
	if err != nil {
		fatal(err)
	}
	if packages.PrintErrors(pkgs) > 0 {
		fmt.Fprintln(os.Stderr, "symgo: package load errors")
		os.Exit(3)
	}
	prog, spkgs := ssautil.AllPackages(pkgs, ssa.InstantiateGenerics)
	prog.Build()
	loadS := time.Since(t0).Seconds()
	if *listRanges {
		seen := map[string]bool{}
		var sites []string
		for fn := range ssautil.AllFunctions(prog) {
			if fn.Blocks == nil || !isUnderTest(fn) || isHarnessFunc(fn) || strings.Contains(fn.String(), "zzverif") {
				continue
			}
			for _, b := range fn.Blocks {
				for _, in := range b.Instrs {
					r, ok := in.(*ssa.Range)
					if !ok {
						continue
					}
					if _, isMap := r.X.Type().Underlying().(*types.Map); !isMap {
						continue
					}
					pos := prog.Fset.Position(r.Pos()).String()
					if strings.HasSuffix(prog.Fset.Position(r.Pos()).Filename, "_test.go") || seen[pos] {
						continue
					}
					seen[pos] = true
					sites = append(sites, pos+" "+fn.String())
				}
			}
		}
		sort.Strings(sites)
		fmt.Println(strings.Join(sites, "\n"))
		return
	}

	sh := &Shared{cfg: cfg, prog: prog, extraIntrinsics: map[string]func(*Engine, *ssa.Function, []Value) Value{}}
	sh.cond = sync.NewCond(&sh.mu)
	if *leafBin != "" {
		sh.leaf = startLeaf(*leafBin)
		defer sh.leaf.close()
	}
	type output struct {
		LoadS   float64        `json:"load_s"`
		Solver  string         `json:"solver"`
		Tier    int            `json:"tier"`
		Witness bool           `json:"witness"`
		Results []*EntryResult `json:"results"`
	}
	o := output{LoadS: loadS, Solver: *solver, Tier: *tier, Witness: *witness}
	for _, name := range strings.Split(*entries, ",") {
		name = strings.TrimSpace(name)
		if name == "" {
			continue
		}
		var entry *ssa.Function
		for _, p := range spkgs {
			if p != nil {
				if f := p.Func(name); f != nil && isHarnessFunc(f) {
					entry = f
				}
			}
		}
		if entry == nil {
			fmt.Fprintln(os.Stderr, "symgo: entry not found:", name)
			os.Exit(3)
		}
		res := sh.explore(entry)
		o.Results = append(o.Results, res)
		fmt.Fprintf(os.Stderr, "symgo: %-40s paths=%d completed=%d events=%d aborts=%d bounds=%d queries=%d wall=%.1fs %s\n",
			name, res.Paths, res.Completed, len(res.Events), sumMap(res.Aborts), sumMap(res.Bounds), res.Queries, res.WallS, res.Incomplete)
		if pathStatsK > 0 {
			var keys []string
			for k := range pathStats {
				keys = append(keys, k)
			}
			sort.Slice(keys, func(i, j int) bool { return pathStats[keys[i]] > pathStats[keys[j]] })
			for i, k := range keys {
				if i < 40 {
					fmt.Fprintf(os.Stderr, "  pathstats %8d  %s\n", pathStats[k], k)
				}
			}
			pathStats = map[string]int{}
		}
	}
	raw, _ := json.MarshalIndent(o, "", " ")
	if *out == "" {
		os.Stdout.Write(raw)
	} else if err := os.WriteFile(*out, raw, 0o644); err != nil {
		fatal(err)
	}
}

func sumMap(m map[string]int) int {
	n := 0
	for _, v := range m {
		n += v
	}
	return n
}

func fatal(err error) {
	fmt.Fprintln(os.Stderr, "symgo:", err)
	os.Exit(3)
}
