package main

import (
	"go/types"

	"golang.org/x/tools/go/ssa"
)

// Token-level JSON streams over symbolic documents (C19: orderedmap.Map's JSON methods).
//
// Decoding: json.NewDecoder(bytes.NewReader(raw)) on a document handle (*JSONVal, built by
// the harness with JSONBytes, or *JSONText, built by the code under test with an Encoder)
// is a cursor over the document TREE; Token / More / Decode are given encoding/json's
// documented contract. Member keys may be symbolic and may repeat.
//
// Encoding: a bytes.Buffer handed to json.NewEncoder becomes a list of segments (literal
// bytes written with WriteByte/WriteString, and "the JSON encoding of value x" written by
// Encode, which also appends the newline the real encoder appends). Buffer.Bytes() returns
// the segment list as a *JSONText handle; reading it back parses the segments into a tree
// (whitespace skipped), so encode/decode round trips are decided without byte-level text.

type JSONText struct{ Segs []jsonSeg }

type jsonSeg struct {
	Lit   byte
	IsVal bool
	Val   Iface
}

func (t *JSONText) String() string { return "json-text" }

type jsonReader struct {
	doc *Agg // nil: the text is not a well-formed JSON document
}

type jsFrame struct {
	node      *Agg
	idx       int
	wantValue bool // object frames: the next token is the value of member idx
}

type jsonDecoder struct {
	doc     *Agg
	stack   []*jsFrame
	started bool
	bad     bool
}

type jsonEncoder struct{ buf *Obj }

func nativeOf(v Value) interface{} {
	p, ok := v.(Pointer)
	if !ok || p.O == nil {
		panic(goPanic{msg: "nil pointer dereference"})
	}
	nv, ok := p.O.Val.(*NativeVal)
	if !ok {
		panic(abort{"method on a native value the engine did not create"})
	}
	return nv.V
}

func (e *Engine) ioEOF() Iface {
	pkg := e.prog.ImportedPackage("io")
	if pkg == nil {
		panic(abort{"io package not loaded"})
	}
	g := pkg.Var("EOF")
	return e.globalObj(g).Val.(Iface)
}

func jNode(kind int) *Agg {
	return &Agg{F: []Value{int64(kind), false, int64(0), false, "", Slice{}, Slice{}, Slice{}}}
}

// jsonTextToTree parses a segment list into a document tree (nil if malformed).
func (e *Engine) jsonTextToTree(t *JSONText) *Agg {
	pos := 0
	skip := func() {
		for pos < len(t.Segs) && !t.Segs[pos].IsVal && (t.Segs[pos].Lit == '\n' || t.Segs[pos].Lit == ' ' || t.Segs[pos].Lit == '\t') {
			pos++
		}
	}
	lit := func(b byte) bool {
		skip()
		if pos < len(t.Segs) && !t.Segs[pos].IsVal && t.Segs[pos].Lit == b {
			pos++
			return true
		}
		return false
	}
	var value func() *Agg
	value = func() *Agg {
		skip()
		if pos >= len(t.Segs) {
			return nil
		}
		s := t.Segs[pos]
		if s.IsVal {
			pos++
			return e.goValueToTree(s.Val)
		}
		switch s.Lit {
		case '{':
			pos++
			n := jNode(jkObject)
			var keys, vals []Value
			if lit('}') {
				return n
			}
			for {
				k := value()
				if k == nil || e.jsonKind(k) != jkString {
					return nil
				}
				if !lit(':') {
					return nil
				}
				v := value()
				if v == nil {
					return nil
				}
				keys = append(keys, k.F[jStr])
				vals = append(vals, v)
				if lit(',') {
					continue
				}
				if lit('}') {
					break
				}
				return nil
			}
			n.F[jKeys] = Slice{O: e.newObj(&Agg{F: keys}, "jsontext.keys"), Len: len(keys), Cap: len(keys)}
			n.F[jVals] = Slice{O: e.newObj(&Agg{F: vals}, "jsontext.vals"), Len: len(vals), Cap: len(vals)}
			return n
		case '[':
			pos++
			n := jNode(jkArray)
			var elems []Value
			if lit(']') {
				return n
			}
			for {
				v := value()
				if v == nil {
					return nil
				}
				elems = append(elems, v)
				if lit(',') {
					continue
				}
				if lit(']') {
					break
				}
				return nil
			}
			n.F[jArr] = Slice{O: e.newObj(&Agg{F: elems}, "jsontext.arr"), Len: len(elems), Cap: len(elems)}
			return n
		}
		return nil
	}
	root := value()
	skip()
	if root == nil || pos != len(t.Segs) {
		return nil
	}
	return root
}

// goValueToTree is "the JSON encoding of a Go value" for the leaf types an Encoder is given here.
func (e *Engine) goValueToTree(it Iface) *Agg {
	if it.T == nil {
		return jNode(jkNull)
	}
	switch u := it.T.Underlying().(type) {
	case *types.Basic:
		switch {
		case u.Info()&types.IsString != 0:
			n := jNode(jkString)
			n.F[jStr] = it.V
			return n
		case u.Info()&types.IsBoolean != 0:
			n := jNode(jkBool)
			n.F[jBool] = it.V
			return n
		case u.Info()&types.IsInteger != 0:
			n := jNode(jkNumber)
			n.F[jNum] = e.convert(it.V, it.T, types.Typ[types.Int64])
			return n
		}
	}
	panic(abort{"json.Encoder.Encode of unsupported type " + it.T.String()})
}

func (e *Engine) docOf(v Value) (*Agg, bool) {
	switch d := v.(type) {
	case *JSONVal:
		return d.Node, true
	case *JSONText:
		return e.jsonTextToTree(d), true
	}
	return nil, false
}

func (e *Engine) jsonStreamIntrinsic(fn *ssa.Function, name string, args []Value) (Value, bool) {
	switch name {
	case "bytes.NewReader":
		doc, ok := e.docOf(args[0])
		if !ok {
			return nil, false
		}
		return Pointer{O: e.newObj(&NativeVal{&jsonReader{doc: doc}}, "bytes.Reader")}, true
	case "encoding/json.NewDecoder":
		it, _ := args[0].(Iface)
		p, ok := it.V.(Pointer)
		if !ok || p.O == nil {
			return nil, false
		}
		nv, ok := p.O.Val.(*NativeVal)
		if !ok {
			panic(abort{"json.NewDecoder on a reader the engine cannot see through: " + typeStr(it.T)})
		}
		r, ok := nv.V.(*jsonReader)
		if !ok {
			panic(abort{"json.NewDecoder on an unsupported reader"})
		}
		return Pointer{O: e.newObj(&NativeVal{&jsonDecoder{doc: r.doc, bad: r.doc == nil}}, "json.Decoder")}, true
	case "(*encoding/json.Decoder).More":
		d := nativeOf(args[0]).(*jsonDecoder)
		if d.bad {
			return false, true
		}
		if len(d.stack) == 0 {
			return !d.started, true
		}
		f := d.stack[len(d.stack)-1]
		return !f.wantValue && f.idx < e.frameLen(f), true
	case "(*encoding/json.Decoder).Token":
		d := nativeOf(args[0]).(*jsonDecoder)
		tok, err := e.jsonToken(d, fn)
		return &Agg{F: []Value{tok, err}}, true
	case "(*encoding/json.Decoder).Decode":
		d := nativeOf(args[0]).(*jsonDecoder)
		return e.jsonStreamDecode(d, args[1].(Iface)), true
	case "encoding/json.NewEncoder":
		it, _ := args[0].(Iface)
		p, ok := it.V.(Pointer)
		if !ok || p.O == nil || !isNamedType(it.T, "bytes", "Buffer") {
			panic(abort{"json.NewEncoder on a writer other than *bytes.Buffer"})
		}
		if e.bufText == nil {
			e.bufText = map[*Obj]*JSONText{}
		}
		if e.bufText[p.O] == nil {
			e.bufText[p.O] = &JSONText{}
		}
		return Pointer{O: e.newObj(&NativeVal{&jsonEncoder{buf: p.O}}, "json.Encoder")}, true
	case "(*encoding/json.Encoder).Encode":
		enc := nativeOf(args[0]).(*jsonEncoder)
		t := e.bufText[enc.buf]
		t.Segs = append(t.Segs, jsonSeg{IsVal: true, Val: args[1].(Iface)}, jsonSeg{Lit: '\n'})
		return Iface{}, true
	case "(*bytes.Buffer).WriteByte", "(*bytes.Buffer).Bytes", "(*bytes.Buffer).WriteString", "(*bytes.Buffer).Len":
		p, ok := args[0].(Pointer)
		if !ok || p.O == nil || e.bufText == nil || e.bufText[p.O] == nil {
			return nil, false // an ordinary buffer: interpreted from its source
		}
		t := e.bufText[p.O]
		switch name {
		case "(*bytes.Buffer).WriteByte":
			b, ok := args[1].(int64)
			if !ok {
				panic(abort{"symbolic byte written to a JSON text buffer"})
			}
			t.Segs = append(t.Segs, jsonSeg{Lit: byte(b)})
			return Iface{}, true
		case "(*bytes.Buffer).WriteString":
			s := e.concreteStr(args[1])
			for i := 0; i < len(s); i++ {
				t.Segs = append(t.Segs, jsonSeg{Lit: s[i]})
			}
			return &Agg{F: []Value{int64(len(s)), Iface{}}}, true
		case "(*bytes.Buffer).Bytes":
			cp := &JSONText{Segs: append([]jsonSeg{}, t.Segs...)}
			return cp, true
		}
		panic(abort{name + " on a JSON text buffer"})
	}
	return nil, false
}

func isNamedType(t types.Type, pkg, name string) bool {
	if p, ok := t.(*types.Pointer); ok {
		t = p.Elem()
	}
	n, ok := t.(*types.Named)
	return ok && n.Obj().Pkg() != nil && n.Obj().Pkg().Path() == pkg && n.Obj().Name() == name
}

func typeStr(t types.Type) string {
	if t == nil {
		return "<nil>"
	}
	return t.String()
}

func (e *Engine) frameLen(f *jsFrame) int {
	if e.jsonKind(f.node) == jkObject {
		return f.node.F[jKeys].(Slice).Len
	}
	return f.node.F[jArr].(Slice).Len
}

// advance: the value at the cursor has been consumed.
func (d *jsonDecoder) advance() {
	if len(d.stack) == 0 {
		return
	}
	f := d.stack[len(d.stack)-1]
	f.idx++
	f.wantValue = false
}

// next returns the node a Decode call (or a value token) is positioned at, or nil.
func (e *Engine) jsonNextValue(d *jsonDecoder) *Agg {
	if len(d.stack) == 0 {
		if d.started {
			return nil
		}
		return d.doc
	}
	f := d.stack[len(d.stack)-1]
	if e.jsonKind(f.node) == jkObject {
		if !f.wantValue || f.idx >= e.frameLen(f) {
			return nil
		}
		return sliceElems(f.node.F[jVals].(Slice))[f.idx].(*Agg)
	}
	if f.idx >= e.frameLen(f) {
		return nil
	}
	return sliceElems(f.node.F[jArr].(Slice))[f.idx].(*Agg)
}

func (e *Engine) jsonToken(d *jsonDecoder, fn *ssa.Function) (Value, Value) {
	if d.bad {
		return Iface{}, e.newErr("invalid character in JSON text", nil, false)
	}
	delimT := fn.Pkg.Pkg.Scope().Lookup("Delim").Type()
	delim := func(r rune) Iface { return Iface{T: delimT, V: int64(r)} }
	// closing delimiter or member key?
	if len(d.stack) > 0 {
		f := d.stack[len(d.stack)-1]
		isObj := e.jsonKind(f.node) == jkObject
		if !f.wantValue && f.idx >= e.frameLen(f) {
			d.stack = d.stack[:len(d.stack)-1]
			d.advance()
			if isObj {
				return delim('}'), Iface{}
			}
			return delim(']'), Iface{}
		}
		if isObj && !f.wantValue {
			f.wantValue = true
			return Iface{T: types.Typ[types.String], V: sliceElems(f.node.F[jKeys].(Slice))[f.idx]}, Iface{}
		}
	}
	n := e.jsonNextValue(d)
	if n == nil {
		return Iface{}, e.ioEOF()
	}
	d.started = true
	switch e.jsonKind(n) {
	case jkObject:
		d.stack = append(d.stack, &jsFrame{node: n})
		return delim('{'), Iface{}
	case jkArray:
		d.stack = append(d.stack, &jsFrame{node: n})
		return delim('['), Iface{}
	}
	d.advance()
	return e.jsonGeneric(n), Iface{}
}

func (e *Engine) jsonStreamDecode(d *jsonDecoder, target Iface) Value {
	if d.bad {
		return e.newErr("invalid character in JSON text", nil, false)
	}
	n := e.jsonNextValue(d)
	if n == nil {
		if len(d.stack) == 0 {
			return e.ioEOF()
		}
		return e.newErr("json: Decode called where no value starts", nil, false)
	}
	d.started = true
	d.advance()
	return e.jsonUnmarshal(&JSONVal{Node: n}, target)
}
